#!/bin/bash
# usage: tools/mkmutant.sh <mutants|benign> <name> <expect-regex> <file> <python-replace-old> <python-replace-new>
# creates selftest/<dir>/<name>.patch from a single textual replacement applied to /repo HEAD (in a scratch worktree).
set -e
dir=$1; name=$2; expect=$3; file=$4; old=$5; new=$6
S=/var/tmp/verif-mk.$$
git -C /repo worktree add -q --detach $S HEAD
trap 'git -C /repo worktree remove --force $S >/dev/null 2>&1' EXIT
python3 - "$S/$file" "$old" "$new" <<'PY'
import sys
p,old,new=sys.argv[1:4]
s=open(p).read()
if s.count(old)!=1: sys.exit("pattern occurs %d times in %s" % (s.count(old), p))
open(p,'w').write(s.replace(old,new))
PY
(cd $S && GOFLAGS=-mod=mod GOPROXY=off GOSUMDB=off GOTOOLCHAIN=local go build ./$(dirname $file)/ ) || { echo "mutant does not compile"; exit 1; }
{ echo "# expect: $expect"; git -C $S diff; } > /verif/selftest/$dir/$name.patch
echo "wrote selftest/$dir/$name.patch"
