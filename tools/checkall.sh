#!/bin/bash
# runs the quick check of every claimed property; prints one line each and a final verdict
cd "$(dirname "$0")/.."
fail=0
for id in $(python3 -c "import json; print(' '.join(c['property_id'] if 'property_id' in c else c.get('id','') for c in json.load(open('MANIFEST.json')).get('checks',[])))" 2>/dev/null); do
  out=$(./check $id 2>&1 | grep -v "^WARNING" | tail -1); rc=${PIPESTATUS[0]}
  echo "$out" | cut -c1-160
  echo "$out" | grep -q " 0 violations" || fail=1
done
echo "checkall: fail=$fail"
exit $fail
