#!/bin/bash
# Must-fail corpus: every selftest/mutants/<ID>-*.patch must make ./check <ID> report a VIOLATION
# (optionally naming the obligation given in the patch's "# expect:" line).
# Must-pass corpus: every selftest/benign/<ID>-*.patch must keep ./check <ID> at exit 0.
# Works on a scratch worktree of /repo (HEAD) under /var/tmp; /repo itself is not touched.
set -u
cd "$(dirname "$0")/.."
export GOFLAGS=-mod=mod GOPROXY=off GOSUMDB=off GOTOOLCHAIN=local
only="${1:-}"
S=/var/tmp/verif-selftest.$$
git -C /repo worktree add -q --detach "$S" HEAD || exit 2
trap 'git -C /repo worktree remove --force "$S" >/dev/null 2>&1; rm -rf "$S"' EXIT
fail=0; n=0
run() { # kind patch
  local kind="$1" p="$2" base id expect out rc
  base=$(basename "$p"); id=${base%%-*}
  [ -n "$only" ] && [ "$id" != "$only" ] && return
  expect=$(grep -m1 '^# expect:' "$p" | sed 's/^# expect: *//')
  git -C "$S" checkout -q -- . ; git -C "$S" clean -fdq
  if ! git -C "$S" apply "$(pwd)/$p" 2>/dev/null; then echo "SELFTEST-BROKEN $base: patch does not apply"; fail=1; return; fi
  out=$(bin/govc check --root "$(pwd)/.selftest-root" --repo "$S" "$id" 2>&1); rc=$?
  n=$((n+1))
  if [ "$kind" = mutant ]; then
    if [ $rc -ne 1 ] || ! grep -q "^VIOLATION property=$id" <<<"$out"; then echo "SELFTEST-MISSED $base (rc=$rc)"; echo "$out" | tail -3; fail=1
    elif [ -n "$expect" ] && ! grep -q "VIOLATION.*$expect" <<<"$out"; then echo "SELFTEST-WRONG-OBLIGATION $base: expected $expect"; echo "$out" | grep VIOLATION | head -3; fail=1
    else echo "ok   caught $base"; fi
  else
    if [ $rc -ne 0 ]; then echo "SELFTEST-FALSE-ALARM $base (rc=$rc)"; echo "$out" | grep VIOLATION | head -3; fail=1; else echo "ok   benign $base"; fi
  fi
}
# a scratch verif root sharing props/claims/known findings/replay drivers, with its own evidence/replays
rm -rf .selftest-root; mkdir -p .selftest-root
for d in props claims replay known_findings.json; do ln -s "$(pwd)/$d" .selftest-root/$d; done
[ -x bin/govc ] || make -s setup
for p in selftest/mutants/*.patch; do [ -e "$p" ] && run mutant "$p"; done
for p in selftest/benign/*.patch; do [ -e "$p" ] && run benign "$p"; done
rm -rf .selftest-root
echo "selftest: $n patches, fail=$fail"
exit $fail
