#!/bin/bash
# Must-fail corpus: every selftest/mutants/<ID>-*.patch must make ./check <ID> report a VIOLATION
# (optionally naming the obligation given in the patch's "# expect:" line, a basic grep regex).
# Must-pass corpus: every selftest/benign/<ID>-*.patch must keep ./check <ID> at exit 0.
# Works on scratch worktrees of /repo (HEAD) under /var/tmp; /repo itself is not touched. The patches are spread
# over SELFTEST_JOBS workers (default 4), each with its own worktree and its own copy of props/claims (a snapshot,
# so that /verif can be worked on while the corpus runs).
# usage: tools/selftest.sh [ID]
set -u
cd "$(dirname "$0")/.."
export GOFLAGS=-mod=mod GOPROXY=off GOSUMDB=off GOTOOLCHAIN=local
only="${1:-}"
jobs="${SELFTEST_JOBS:-4}"
[ -x bin/govc ] || make -s setup
T=/var/tmp/verif-selftest.$$
mkdir -p "$T"
cp bin/govc "$T/govc"
trap 'for w in "$T"/wt.*; do [ -d "$w" ] && git -C /repo worktree remove --force "$w" >/dev/null 2>&1; done; rm -rf "$T"' EXIT
list=()
for p in selftest/mutants/*.patch; do [ -e "$p" ] && list+=("mutant $p"); done
for p in selftest/benign/*.patch; do [ -e "$p" ] && list+=("benign $p"); done
worker() { # index
  local k=$1 S="$T/wt.$1" R="$T/root.$1" i=0 item kind p base id expect out rc
  git -C /repo worktree add -q --detach "$S" HEAD || { echo "SELFTEST-BROKEN worker $k: no worktree"; return; }
  mkdir -p "$R"; cp -r props claims known_findings.json "$R/"; ln -s "$(pwd)/replay" "$R/replay"; ln -s "$(pwd)/bounded" "$R/bounded"
  for item in "${list[@]}"; do
    kind=${item%% *}; p=${item#* }
    base=$(basename "$p"); id=${base%%-*}
    [ -n "$only" ] && [ "$id" != "$only" ] && continue
    i=$((i+1)); [ $((i % jobs)) -eq $((k % jobs)) ] || continue
    expect=$(grep -m1 '^# expect:' "$p" | sed 's/^# expect: *//')
    git -C "$S" checkout -q -- . ; git -C "$S" clean -fdq
    if ! git -C "$S" apply "$(pwd)/$p" 2>/dev/null; then echo "SELFTEST-BROKEN $base: patch does not apply"; continue; fi
    if [ "$kind" = mutant ]; then out=$(GOVC_SHORT_RETRY=1 "$T/govc" check --root "$R" --repo "$S" "$id" 2>&1); rc=$?
    else out=$("$T/govc" check --root "$R" --repo "$S" "$id" 2>&1); rc=$?; fi
    if [ "$kind" = mutant ]; then
      if [ $rc -ne 1 ] || ! grep -q "^VIOLATION property=$id" <<<"$out"; then echo "SELFTEST-MISSED $base (rc=$rc)"; echo "$out" | tail -3
      elif [ -n "$expect" ] && ! grep -q "VIOLATION.*$expect" <<<"$out"; then echo "SELFTEST-WRONG-OBLIGATION $base: expected $expect"; echo "$out" | grep VIOLATION | head -3
      else echo "ok   caught $base"; fi
    else
      if [ $rc -ne 0 ]; then echo "SELFTEST-FALSE-ALARM $base (rc=$rc)"; echo "$out" | grep VIOLATION | head -3; else echo "ok   benign $base"; fi
    fi
  done
}
for k in $(seq 1 "$jobs"); do worker "$k" > "$T/out.$k" 2>&1 & done
wait
cat "$T"/out.* > "$T/all"
cat "$T/all"
n=$(grep -c "^ok\|^SELFTEST" "$T/all")
fail=0; grep -q "^SELFTEST" "$T/all" && fail=1
echo "selftest: $n patches, fail=$fail"
exit $fail
