#!/bin/bash
# usage: tools/storeseed.sh <prop> <name> <outdir> <demo pkg> <needs> <check result>
set -e
cd "$(dirname "$0")/.."
p=$1; n=$2; out=$3; pkg=$4; needs=$5; res=$6
d=seeded/$n; mkdir -p $d
cp $out/patch.diff $d/patch.diff; cp $out/zz_seed_demo_test.go $d/; cp $out/README.txt $d/author_notes.txt
python3 - "$p" "$n" "$pkg" "$needs" "$res" > $d/meta.json <<'P'
import json,sys
p,n,pkg,needs,res=sys.argv[1:]
print(json.dumps({"property":p,"origin":"independent sub-agent given only the property text and a scratch worktree",
 "needs_to_manifest":needs,"demo_package":pkg,
 "confirmed":"tools/confirmseed.sh: demo passes on HEAD, patch builds, existing package tests pass with the patch, demo fails with the patch",
 "check_result":res,"how_to_run":"tools/tryseed.sh %s seeded/%s/patch.diff"%(p,n)},indent=1))
P
{ echo "# seeded by an independent sub-agent ($n)"; cat $d/patch.diff; } > selftest/mutants/$p-seed-$n.patch
echo stored $d
