#!/bin/bash
# usage: tools/tryseed.sh <id> <patch.diff> [tier]: applies a patch to a scratch worktree of /repo and runs ./check <id> on it.
set -u
cd "$(dirname "$0")/.."
id=$1; patch=$(readlink -f $2); tier=${3:-quick}
S=/var/tmp/verif-seed.$$
git -C /repo worktree add -q --detach "$S" HEAD || exit 2
trap 'git -C /repo worktree remove --force "$S" >/dev/null 2>&1; rm -rf /tmp/vr.$$' EXIT
git -C "$S" apply "$patch" || { echo "patch does not apply"; exit 2; }
mkdir -p /tmp/vr.$$; for d in props claims replay bounded known_findings.json; do ln -s /verif/$d /tmp/vr.$$/$d; done
bin/govc check --root /tmp/vr.$$ --repo "$S" --tier $tier "$id" | sed "s|/tmp/vr.$$|<root>|g" | cut -c1-260
