#!/usr/bin/env python3
"""Regenerates /verif/MANIFEST.json from tools/manifest_table.json (claimed checks and not-applicable reasons)."""
import json, subprocess
props=[json.loads(l) for l in open('/verif/properties.jsonl')]
table=json.load(open('/verif/tools/manifest_table.json'))
checks=[]; na=[]
for p in props:
    t=table.get(p['id'])
    if t and t.get('claimed'):
        checks.append({
          "property_id": p['id'],
          "quick_cmd": "./check %s --tier quick" % p['id'],
          "thorough_cmd": "./check %s --tier thorough" % p['id'],
          "evidence_file": "/verif/evidence/%s.json" % p['id'],
          "replay_cmd_template": "./check %s --replay {path}" % p['id'],
          "engine": "govc",
          "level_claimed": {"category":"proof","text":t['text'],"design_ref":"DESIGN.md §3 "+p['id']},
          "level_note": t['note'],
          "technique": t.get('technique',"contract-based deductive verification (govc: weakest preconditions over go/ssa, contracts in guarded comment files, z3/cvc5)")
        })
    else:
        na.append({"property_id":p['id'],"reason":(t or {}).get('reason',"contracts for this property are not yet under the verifier (work in progress; see DESIGN.md)")})
commits=subprocess.run("git -C /repo log --format=%h --grep='^verif:'",shell=True,capture_output=True,text=True).stdout.split()
m={"version":1,"setup_cmd":"make -C /verif setup",
   "hooks":{"guard":"verif","enable":"-tags verif (adds comment-only zz_verif_contracts.go files; no executable hook)","baseline_off_cmd":json.load(open('/root/.vp/BASELINE.json'))['cmd'],"source_commits":commits,"add_only":True},
   "engines":[{"name":"govc","path":"/verif/engine","serves_properties":[c['property_id'] for c in checks],"kind_free_text":"verification-condition generator for a Go subset over go/ssa (naive form); contracts in guarded comment files in /repo; obligations discharged by z3 4.8.12 / z3 5.1.0 / cvc5 1.0"}],
   "checks":checks,
   "not_applicable":na}
json.dump(m,open('/verif/MANIFEST.json','w'),indent=1)
print(len(checks),"claimed;",len(na),"not applicable")
