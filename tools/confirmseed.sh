#!/bin/bash
# usage: tools/confirmseed.sh <outdir-with-patch.diff-and-demo> <package-dir-of-demo> [extra test packages...]
# Confirms in a scratch worktree of /repo HEAD: demo passes without the patch; with the patch the tree builds,
# the existing tests of the package(s) pass, and the demo fails.
set -u
export GOFLAGS=-mod=mod GOPROXY=off GOSUMDB=off GOTOOLCHAIN=local
out=$(readlink -f $1); pkg=$2; shift 2; extra="$@"
S=/var/tmp/verif-confirm.$$
git -C /repo worktree add -q --detach "$S" HEAD || exit 2
trap 'git -C /repo worktree remove --force "$S" >/dev/null 2>&1' EXIT
cp $out/zz_seed_demo_test.go $S/$pkg/
cd $S
r1=$(go test -count=1 -vet=off -run '^TestSeedDemo$' ./$pkg/ 2>&1 | tail -1)
git apply $out/patch.diff || { echo "patch does not apply"; exit 2; }
b=$(go build ./... 2>&1 | tail -1)
r2=$(go test -count=1 -vet=off -skip '^TestSeedDemo$' ./$pkg/... $extra 2>&1 | grep -v "no test files" | grep -c -v "^ok")
r3=$(go test -count=1 -vet=off -run '^TestSeedDemo$' ./$pkg/ 2>&1 | tail -1)
echo "demo without patch: $r1"
echo "build with patch: ${b:-ok}"
echo "existing tests with patch: non-ok lines=$r2"
echo "demo with patch: $r3"
