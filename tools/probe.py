#!/usr/bin/env python3
"""probe.py <file.smt2> [timeout]: splits the final goal (not (forall (..) (=> G (and c1 .. cn)))) or
(not (and c1..cn)) into its conjuncts and reports which of them the solver cannot prove."""
import sys, subprocess
def parse(s):
    s=s.strip(); out=[]; stack=[out]; tok=''; i=0
    while i<len(s):
        c=s[i]
        if c=='(':
            new=[]; stack[-1].append(new); stack.append(new)
        elif c==')':
            if tok: stack[-1].append(tok); tok=''
            stack.pop()
        elif c in ' \n\t':
            if tok: stack[-1].append(tok); tok=''
        else: tok+=c
        i+=1
    if tok: stack[-1].append(tok)
    return out[0]
def show(x): return x if isinstance(x,str) else '('+' '.join(show(y) for y in x)+')'
def conj(x):
    if isinstance(x,list) and x and x[0]=='and':
        r=[]
        for y in x[1:]: r+=conj(y)
        return r
    return [x]
f=sys.argv[1]; to=int(sys.argv[2]) if len(sys.argv)>2 else 8
L=[l for l in open(f).read().split('\n') if 'get-model' not in l and 'check-sat' not in l]
idx=max(i for i,l in enumerate(L) if l.startswith('(assert (not'))
goal=parse(L[idx])[1][1]   # inside not
base=L[:idx]
def wrap(g):
    return g
cands=[]
if goal[0]=='forall':
    binders,body=goal[1],goal[2]
    if body[0]=="!": body=body[1]
    if body[0]=='=>':
        for c in conj(body[2]): cands.append(['forall',binders,['=>',body[1],c]])
    else:
        for c in conj(body): cands.append(['forall',binders,c])
else:
    cands=conj(goal)
for c in cands:
    open('/tmp/probe.smt2','w').write('\n'.join(base+['(assert (not %s))'%show(c),'(check-sat)']))
    r=subprocess.run(['z3-new','-T:%d'%to,'/tmp/probe.smt2'],capture_output=True,text=True).stdout.split('\n')[0]
    print(r, show(c)[:300])
