export GOFLAGS=-mod=mod
export GOPROXY=off
export GOSUMDB=off
export GOTOOLCHAIN=local

setup:
	mkdir -p bin
	cd engine && go build -o ../bin/govc .

.PHONY: setup
