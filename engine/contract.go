package main

// Contract files: comment-only Go files `zz_verif_contracts.go` (//go:build verif) holding
// `//@` blocks. This file parses the block structure and the expression language.

import (
	"fmt"
	"go/ast"
	"go/types"
	"regexp"
	"strconv"
	"strings"
	"unicode"

	"golang.org/x/tools/go/packages"
	"golang.org/x/tools/go/ssa"
)

type Clause struct {
	Kind string // requires, ensures, invariant, assert, assume
	Text string
	Expr *Expr
	File string
	Line int
}

type AtCall struct {
	Callee string
	Ord    int // 0 = every occurrence
	Assume bool
	Ghost  *GhostUpdate // ghost assignment executed just before the call
	Names  []string     // names for results (assumes) — optional
	Clause *Clause
}

type FuncContract struct {
	Pkg           string
	Name          string
	Requires      []*Clause
	Ensures       []*Clause
	Modifies      []string
	ModNone       bool
	HasMod        bool
	WeakFrame     map[int]bool                 // loops declared `freshwrites`: weak automatic frame + loop-frame obligations
	LoopsIn       map[string]map[int][]*Clause // invariants for loops of inlined callees, by callee short name
	Loops         map[int][]*Clause
	AtCalls       []*AtCall
	Thread        bool
	Exits         []*Clause // thread-exit clauses
	ChanInvs      []*ChanInv
	Ghosts        []*GhostDecl
	Extern        bool
	LockFree      bool // takes no lock and touches no guarded state: callable with any locks held (verified with an arbitrary lock state)
	Trusted       bool // contract is assumed, body not verified (interface methods, externals)
	SharedAtomics bool
	File          string
	Line          int
}

// GhostUpdate: name[i1][i2].. = value
type GhostUpdate struct {
	Name  string
	Index []*Expr
	Value *Expr
	Text  string
}

type ChanInv struct {
	Chan   string // expression text naming the channel (local name)
	Var    string // name bound to the message
	Clause *Clause
}

type GhostDecl struct {
	Name  string
	Sort  string
	Mutex string
	Init  string // "" arbitrary; "empty": all-zero/all-false; otherwise an expression
}

type TypeContract struct {
	Valid     []*Clause // representation validity established by the constructor (assumed for receivers)
	Pkg       string
	Name      string
	GuardedBy map[string]string // field -> mutex field
	// Replaced: guarded fields whose map/slice object is never mutated once published (the field is only ever
	// re-pointed under the lock): reading the object needs no lock, writing it is never allowed
	Replaced map[string]bool
	// EntriesReplaced: guarded map fields whose entries (inner maps) are never mutated once stored
	EntriesReplaced map[string]bool
	// Confined: fields that are written after construction but by one goroutine only (reason given); assumptions
	Confined map[string]string
	LockInv  map[string][]*Clause
	Ghosts   []*GhostDecl
}

type SpecFunc struct {
	Name     string
	Params   []SpecParam
	Result   string // type text
	Body     *Expr
	Pkg      *packages.Package
	declared bool
}

type SpecParam struct{ Name, Type string }

type Lemma struct {
	Name   string
	Clause *Clause
	Pkg    *packages.Package
}

type ContractDB struct {
	externs       map[string]*FuncContract // assumed contracts of functions outside the repository, by declaring package \x00 full name
	externsByName map[string][]*FuncContract
	funcs         map[string]*FuncContract // key pkgpath + "." + shortname
	types         map[string]*TypeContract // key pkgpath + "." + name
	specs         map[string]*SpecFunc     // package path \x00 name
	specsByName   map[string][]*SpecFunc
	lemmas        []*Lemma
	// axioms: defining equations of uninterpreted spec functions, per package; assumed at the entry of every
	// function of that package and reported among the assumptions
	axioms map[string][]*Clause
	pkgs   map[string]*packages.Package
	errors []string
	// startedNames: the functions named in some started(X) term; only their go statements are counted
	startedNames map[string]bool
}

var startedRe = regexp.MustCompile(`started\(([A-Za-z0-9_$.]+)\)`)

func NewContractDB() *ContractDB {
	return &ContractDB{externs: map[string]*FuncContract{}, funcs: map[string]*FuncContract{}, types: map[string]*TypeContract{}, specs: map[string]*SpecFunc{}, pkgs: map[string]*packages.Package{}, axioms: map[string][]*Clause{}}
}

func (db *ContractDB) lookupFunc(fn *ssa.Function) *FuncContract {
	if o := fn.Origin(); o != nil {
		fn = o
	}
	return db.funcs[pkgPathOf(fn)+"."+funcShortName(fn)]
}

func (db *ContractDB) lookupMethod(m *types.Func) *FuncContract {
	if m.Pkg() == nil {
		return nil
	}
	sig := m.Type().(*types.Signature)
	if sig.Recv() == nil {
		return nil
	}
	t := sig.Recv().Type()
	name := ""
	if n := namedOf(t); n != nil {
		name = n.Obj().Name()
	} else {
		return nil
	}
	return db.funcs[m.Pkg().Path()+".("+name+")."+m.Name()]
}

func (db *ContractDB) lookupType(n *types.Named) *TypeContract {
	if n.Obj().Pkg() == nil {
		return nil
	}
	return db.types[n.Obj().Pkg().Path()+"."+n.Obj().Name()]
}

// LoadPackage scans the package's syntax for //@ comment blocks.
func (db *ContractDB) LoadPackage(p *packages.Package) {
	if _, done := db.pkgs[p.PkgPath]; done {
		return
	}
	db.pkgs[p.PkgPath] = p
	for _, file := range p.Syntax {
		fname := p.Fset.Position(file.Pos()).Filename
		if !strings.Contains(fname, "zz_verif_") {
			continue
		}
		var lines []srcLine
		for _, cg := range file.Comments {
			for _, c := range cg.List {
				if strings.HasPrefix(c.Text, "//@") {
					for _, m := range startedRe.FindAllStringSubmatch(stripComment(c.Text[3:]), -1) {
						if db.startedNames == nil {
							db.startedNames = map[string]bool{}
						}
						db.startedNames[m[1]] = true
					}
					lines = append(lines, srcLine{text: c.Text[3:], line: p.Fset.Position(c.Pos()).Line})
				}
			}
		}
		db.parseLines(p, fname, lines)
	}
}

type srcLine struct {
	text string
	line int
}

func stripComment(s string) string {
	// strip trailing "// ..." comments (not inside strings; contracts rarely hold strings with //)
	inStr := false
	for i := 0; i+1 < len(s); i++ {
		if s[i] == '"' {
			inStr = !inStr
		}
		if !inStr && s[i] == '/' && s[i+1] == '/' {
			return s[:i]
		}
	}
	return s
}

var clauseKeywords = map[string]bool{"requires": true, "ensures": true, "modifies": true, "loop": true, "invariant": true, "at": true, "assumes": true,
	"thread": true, "exit": true, "valid": true, "chaninv": true, "guarded_by": true, "lockinv": true, "ghost": true, "trusted": true, "shared_atomics": true, "decreases": true, "confined": true, "lockfree": true, "freshwrites": true}

func (db *ContractDB) errf(file string, line int, format string, args ...interface{}) {
	db.errors = append(db.errors, fmt.Sprintf("%s:%d: %s", file, line, fmt.Sprintf(format, args...)))
}

func (db *ContractDB) parseLines(p *packages.Package, file string, lines []srcLine) {
	// join continuation lines: a line whose first word is not a keyword continues the previous clause
	type item struct {
		text string
		line int
	}
	var items []item
	for _, l := range lines {
		t := strings.TrimSpace(stripComment(l.text))
		if t == "" {
			continue
		}
		first := firstWord(t)
		top := first == "func" || first == "type" || first == "spec" || first == "lemma" || first == "interface" || first == "extern" || first == "axiom"
		if top || clauseKeywords[first] {
			items = append(items, item{t, l.line})
		} else if len(items) > 0 {
			items[len(items)-1].text += " " + t
		}
	}
	var curFunc *FuncContract
	var curType *TypeContract
	curLoop := 0
	curLoopIn := ""
	for _, it := range items {
		first := firstWord(it.text)
		rest := strings.TrimSpace(it.text[len(first):])
		mk := func(kind, text string) *Clause {
			e, err := parseExpr(text)
			if err != nil {
				db.errf(file, it.line, "cannot parse %q: %v", text, err)
				return nil
			}
			return &Clause{Kind: kind, Text: text, Expr: e, File: file, Line: it.line}
		}
		switch first {
		case "func":
			curType = nil
			curLoop = 0
			curLoopIn = ""
			curFunc = &FuncContract{Pkg: p.PkgPath, Name: rest, Loops: map[int][]*Clause{}, File: file, Line: it.line}
			db.funcs[p.PkgPath+"."+rest] = curFunc
		case "extern":
			curType = nil
			curLoop = 0
			curFunc = &FuncContract{Pkg: p.PkgPath, Name: rest, Loops: map[int][]*Clause{}, File: file, Line: it.line, Trusted: true, Extern: true}
			// an extern contract is what the declaring package assumes of a dependency (it may be stated in that
			// package's own spec functions): it applies to calls from that package; elsewhere only if no other
			// package declares one for the same function
			db.externs[p.PkgPath+"\x00"+rest] = curFunc
			if db.externsByName == nil {
				db.externsByName = map[string][]*FuncContract{}
			}
			db.externsByName[rest] = append(db.externsByName[rest], curFunc)
		case "type":
			curFunc = nil
			curType = &TypeContract{Pkg: p.PkgPath, Name: rest, GuardedBy: map[string]string{}, LockInv: map[string][]*Clause{}, Replaced: map[string]bool{}, EntriesReplaced: map[string]bool{}, Confined: map[string]string{}}
			db.types[p.PkgPath+"."+rest] = curType
		case "spec":
			curFunc, curType = nil, nil
			db.parseSpec(p, file, it.line, rest)
		case "axiom":
			curFunc, curType = nil, nil
			if c := mk("axiom", rest); c != nil {
				db.axioms[p.PkgPath] = append(db.axioms[p.PkgPath], c)
			}
		case "lemma":
			curFunc, curType = nil, nil
			i := strings.Index(rest, ":")
			if i < 0 {
				db.errf(file, it.line, "lemma needs name: expr")
				continue
			}
			if c := mk("lemma", strings.TrimSpace(rest[i+1:])); c != nil {
				db.lemmas = append(db.lemmas, &Lemma{Name: strings.TrimSpace(rest[:i]), Clause: c, Pkg: p})
			}
		case "requires", "ensures":
			if curFunc == nil {
				db.errf(file, it.line, "%s outside func", first)
				continue
			}
			if c := mk(first, rest); c != nil {
				if first == "requires" {
					curFunc.Requires = append(curFunc.Requires, c)
				} else {
					curFunc.Ensures = append(curFunc.Ensures, c)
				}
			}
		case "exit":
			if curFunc != nil {
				if c := mk("exit", rest); c != nil {
					curFunc.Exits = append(curFunc.Exits, c)
				}
			}
		case "modifies":
			if curFunc == nil {
				continue
			}
			curFunc.HasMod = true
			if rest == "nothing" {
				curFunc.ModNone = true
			} else {
				for _, m := range strings.Split(rest, ",") {
					curFunc.Modifies = append(curFunc.Modifies, strings.TrimSpace(m))
				}
			}
		case "thread":
			if curFunc != nil {
				curFunc.Thread = true
			}
		case "trusted":
			if curFunc != nil {
				curFunc.Trusted = true
			}
		case "lockfree":
			if curFunc != nil {
				curFunc.LockFree = true
			}
		case "shared_atomics":
			if curFunc != nil {
				curFunc.SharedAtomics = true
			}
		case "loop":
			// loop N            : the N-th loop of this function
			// loop callee.N     : the N-th loop of a callee without contract that is inlined into this function
			curLoopIn = ""
			if i := strings.LastIndex(rest, "."); i > 0 {
				curLoopIn = strings.TrimSpace(rest[:i])
				rest = rest[i+1:]
			}
			n, err := strconv.Atoi(strings.TrimSpace(rest))
			if err != nil {
				db.errf(file, it.line, "loop needs a number")
			}
			curLoop = n
		case "invariant":
			if curFunc == nil || curLoop == 0 {
				db.errf(file, it.line, "invariant outside loop")
				continue
			}
			if c := mk("invariant", rest); c != nil {
				if curLoopIn != "" {
					if curFunc.LoopsIn == nil {
						curFunc.LoopsIn = map[string]map[int][]*Clause{}
					}
					if curFunc.LoopsIn[curLoopIn] == nil {
						curFunc.LoopsIn[curLoopIn] = map[int][]*Clause{}
					}
					curFunc.LoopsIn[curLoopIn][curLoop] = append(curFunc.LoopsIn[curLoopIn][curLoop], c)
				} else {
					curFunc.Loops[curLoop] = append(curFunc.Loops[curLoop], c)
				}
			}
		case "decreases":
		case "freshwrites":
			// inside a loop block: every write of the loop that is neither to a loop-invariant address nor to a
			// statically fresh object hits an object allocated by this function (proved per write: loop-frame);
			// in exchange the loop's automatic frame keeps all entry-state objects unchanged
			if curFunc == nil || curLoop == 0 {
				db.errf(file, it.line, "freshwrites outside loop")
				continue
			}
			if curFunc.WeakFrame == nil {
				curFunc.WeakFrame = map[int]bool{}
			}
			curFunc.WeakFrame[curLoop] = true
		case "at", "assumes":
			// at call X#k: assert e        |  assumes call X#k (r0, r1): e
			if curFunc == nil {
				continue
			}
			r := strings.TrimSpace(strings.TrimPrefix(rest, "call"))
			i := strings.Index(r, ":")
			if i < 0 {
				db.errf(file, it.line, "call clause needs ':'")
				continue
			}
			head, body := strings.TrimSpace(r[:i]), strings.TrimSpace(r[i+1:])
			ac := &AtCall{Assume: first == "assumes"}
			if j := strings.Index(head, "("); j >= 0 {
				names := strings.TrimSuffix(strings.TrimSpace(head[j+1:]), ")")
				for _, n := range strings.Split(names, ",") {
					ac.Names = append(ac.Names, strings.TrimSpace(n))
				}
				head = strings.TrimSpace(head[:j])
			}
			if j := strings.Index(head, "#"); j >= 0 {
				ac.Ord, _ = strconv.Atoi(head[j+1:])
				head = head[:j]
			}
			ac.Callee = head
			if strings.HasPrefix(head, "recv ") {
				ac.Callee = "recv:" + strings.TrimSpace(strings.TrimPrefix(head, "recv "))
			}
			if strings.HasPrefix(head, "mapstore ") {
				ac.Callee = "mapstore:" + strings.TrimSpace(strings.TrimPrefix(head, "mapstore "))
			}
			if first == "at" && strings.HasPrefix(body, "ghost ") {
				// at call X#k: ghost name[i][j] = e
				g := strings.TrimSpace(strings.TrimPrefix(body, "ghost"))
				eqi := strings.Index(g, " = ")
				if eqi < 0 {
					db.errf(file, it.line, "ghost update needs ' = '")
					continue
				}
				lhs, err1 := parseExpr(strings.TrimSpace(g[:eqi]))
				rhs, err2 := parseExpr(strings.TrimSpace(g[eqi+3:]))
				if err1 != nil || err2 != nil {
					db.errf(file, it.line, "cannot parse ghost update %q", g)
					continue
				}
				gu := &GhostUpdate{Value: rhs, Text: g}
				for lhs.Op == "index" {
					gu.Index = append([]*Expr{lhs.Args[1]}, gu.Index...)
					lhs = lhs.Args[0]
				}
				gu.Name = lhs.Name
				ac.Ghost = gu
				ac.Clause = &Clause{Kind: "ghost", Text: g, File: file, Line: it.line}
				curFunc.AtCalls = append(curFunc.AtCalls, ac)
				continue
			}
			if first == "at" {
				body = strings.TrimSpace(strings.TrimPrefix(body, "assert"))
			}
			if c := mk(first, body); c != nil {
				ac.Clause = c
				curFunc.AtCalls = append(curFunc.AtCalls, ac)
			}
		case "chaninv":
			// chaninv ch (m): expr
			if curFunc == nil {
				continue
			}
			i := strings.Index(rest, ":")
			if i < 0 {
				continue
			}
			head, body := strings.TrimSpace(rest[:i]), strings.TrimSpace(rest[i+1:])
			ci := &ChanInv{Var: "msg"}
			if j := strings.Index(head, "("); j >= 0 {
				ci.Var = strings.TrimSuffix(strings.TrimSpace(head[j+1:]), ")")
				head = strings.TrimSpace(head[:j])
			}
			ci.Chan = head
			if c := mk("chaninv", body); c != nil {
				ci.Clause = c
				curFunc.ChanInvs = append(curFunc.ChanInvs, ci)
			}
		case "guarded_by":
			if curType == nil {
				continue
			}
			i := strings.Index(rest, ":")
			if i < 0 {
				continue
			}
			mu := strings.TrimSpace(rest[:i])
			for _, f := range strings.Split(rest[i+1:], ",") {
				f = strings.TrimSpace(f)
				if strings.HasSuffix(f, "(entries replaced)") {
					f = strings.TrimSpace(strings.TrimSuffix(f, "(entries replaced)"))
					curType.EntriesReplaced[f] = true
				}
				if strings.HasSuffix(f, "(replaced)") {
					f = strings.TrimSpace(strings.TrimSuffix(f, "(replaced)"))
					curType.Replaced[f] = true
				}
				curType.GuardedBy[f] = mu
			}
		case "confined":
			// confined f1, f2: reason
			if curType == nil {
				continue
			}
			i := strings.Index(rest, ":")
			if i < 0 {
				continue
			}
			for _, f := range strings.Split(rest[:i], ",") {
				curType.Confined[strings.TrimSpace(f)] = strings.TrimSpace(rest[i+1:])
			}
		case "valid":
			if curType == nil {
				continue
			}
			if c := mk("valid", rest); c != nil {
				curType.Valid = append(curType.Valid, c)
			}
		case "lockinv":
			if curType == nil {
				continue
			}
			i := strings.Index(rest, ":")
			if i < 0 {
				continue
			}
			mu := strings.TrimSpace(rest[:i])
			if c := mk("lockinv", strings.TrimSpace(rest[i+1:])); c != nil {
				curType.LockInv[mu] = append(curType.LockInv[mu], c)
			}
		case "ghost":
			// ghost name sort [under mutex]
			if curType == nil && curFunc != nil {
				// function-level ghost: ghost name <smt sort>
				i := strings.IndexAny(rest, " \t")
				if i > 0 {
					g := &GhostDecl{Name: rest[:i], Sort: strings.TrimSpace(rest[i:])}
					if j := strings.Index(g.Sort, " = "); j >= 0 {
						g.Init = strings.TrimSpace(g.Sort[j+3:])
						g.Sort = strings.TrimSpace(g.Sort[:j])
					}
					curFunc.Ghosts = append(curFunc.Ghosts, g)
				}
				continue
			}
			if curType == nil {
				continue
			}
			parts := strings.Fields(rest)
			if len(parts) >= 2 {
				g := &GhostDecl{Name: parts[0], Sort: parts[1]}
				if len(parts) >= 4 && parts[2] == "under" {
					g.Mutex = parts[3]
				}
				curType.Ghosts = append(curType.Ghosts, g)
			}
		}
	}
}

func firstWord(s string) string {
	for i, r := range s {
		if !(unicode.IsLetter(r) || r == '_') {
			return s[:i]
		}
	}
	return s
}

// spec func name(a T, b U) R [= expr]
func (db *ContractDB) parseSpec(p *packages.Package, file string, line int, rest string) {
	rest = strings.TrimSpace(strings.TrimPrefix(rest, "func"))
	i := strings.Index(rest, "(")
	j := matchParen(rest, i)
	if i < 0 || j < 0 {
		db.errf(file, line, "bad spec func")
		return
	}
	sf := &SpecFunc{Name: strings.TrimSpace(rest[:i]), Pkg: p}
	params := strings.TrimSpace(rest[i+1 : j])
	if params != "" {
		for _, pp := range strings.Split(params, ",") {
			f := strings.Fields(pp)
			if len(f) != 2 {
				db.errf(file, line, "spec param needs 'name type'")
				return
			}
			sf.Params = append(sf.Params, SpecParam{f[0], f[1]})
		}
	}
	tail := strings.TrimSpace(rest[j+1:])
	if k := strings.Index(tail, "="); k >= 0 && !strings.HasPrefix(tail[k:], "==") {
		sf.Result = strings.TrimSpace(tail[:k])
		e, err := parseExpr(strings.TrimSpace(tail[k+1:]))
		if err != nil {
			db.errf(file, line, "spec body: %v", err)
			return
		}
		sf.Body = e
	} else {
		sf.Result = tail
	}
	// spec functions belong to the package whose contract file declares them
	key := sf.Name
	if p != nil {
		key = p.PkgPath + "\x00" + sf.Name
	}
	db.specs[key] = sf
	if db.specsByName == nil {
		db.specsByName = map[string][]*SpecFunc{}
	}
	db.specsByName[sf.Name] = append(db.specsByName[sf.Name], sf)
}

func matchParen(s string, i int) int {
	if i < 0 {
		return -1
	}
	d := 0
	for k := i; k < len(s); k++ {
		switch s[k] {
		case '(':
			d++
		case ')':
			d--
			if d == 0 {
				return k
			}
		}
	}
	return -1
}

// ---------------------------------------------------------------------------------------
// Expression language

type Expr struct {
	Op   string // ident, num, str, sel, index, call, unary, binary, forall, exists, cond, old
	Name string
	Args []*Expr
	Vars []SpecParam // quantifier binders
	Trig [][]*Expr   // explicit triggers: forall x T {t1, t2} {t3} :: body
}

type lexer struct {
	s    string
	pos  int
	tok  string
	kind string // id, num, str, op, eof
}

func (l *lexer) next() {
	for l.pos < len(l.s) && (l.s[l.pos] == ' ' || l.s[l.pos] == '\t') {
		l.pos++
	}
	if l.pos >= len(l.s) {
		l.kind, l.tok = "eof", ""
		return
	}
	c := l.s[l.pos]
	start := l.pos
	switch {
	case unicode.IsLetter(rune(c)) || c == '_' || c == '$':
		for l.pos < len(l.s) && (unicode.IsLetter(rune(l.s[l.pos])) || unicode.IsDigit(rune(l.s[l.pos])) || l.s[l.pos] == '_' || l.s[l.pos] == '$' || l.s[l.pos] == '#') {
			l.pos++
		}
		l.kind, l.tok = "id", l.s[start:l.pos]
	case unicode.IsDigit(rune(c)):
		for l.pos < len(l.s) && (unicode.IsDigit(rune(l.s[l.pos])) || l.s[l.pos] == '.' || l.s[l.pos] == 'x' || (l.s[l.pos] >= 'a' && l.s[l.pos] <= 'f')) {
			l.pos++
		}
		l.kind, l.tok = "num", l.s[start:l.pos]
	case c == '"':
		l.pos++
		for l.pos < len(l.s) && l.s[l.pos] != '"' {
			l.pos++
		}
		l.pos++
		l.kind, l.tok = "str", l.s[start+1:l.pos-1]
	default:
		for _, op := range []string{"<==>", "==>", "::", "==", "!=", "<=", ">=", "&&", "||"} {
			if strings.HasPrefix(l.s[l.pos:], op) {
				l.pos += len(op)
				l.kind, l.tok = "op", op
				return
			}
		}
		l.pos++
		l.kind, l.tok = "op", string(c)
	}
}

type parser struct {
	l   *lexer
	err error
}

func parseExpr(s string) (*Expr, error) {
	p := &parser{l: &lexer{s: s}}
	p.l.next()
	e := p.expr()
	if p.err == nil && p.l.kind != "eof" {
		p.err = fmt.Errorf("unexpected %q at %d", p.l.tok, p.l.pos)
	}
	return e, p.err
}

func (p *parser) fail(format string, args ...interface{}) {
	if p.err == nil {
		p.err = fmt.Errorf(format, args...)
	}
}

func (p *parser) accept(tok string) bool {
	if p.l.kind != "eof" && p.l.kind != "str" && p.l.tok == tok {
		p.l.next()
		return true
	}
	return false
}

func (p *parser) expect(tok string) {
	if !p.accept(tok) {
		p.fail("expected %q, got %q at %d", tok, p.l.tok, p.l.pos)
	}
}

func (p *parser) expr() *Expr {
	if p.l.kind == "id" && (p.l.tok == "forall" || p.l.tok == "exists") {
		op := p.l.tok
		p.l.next()
		var vars []SpecParam
		for {
			if p.l.kind != "id" {
				p.fail("binder name expected")
				return nil
			}
			v := SpecParam{Name: p.l.tok}
			p.l.next()
			// optional type: anything up to ',' or '::'
			tstart := p.l.pos - len(p.l.tok)
			if p.l.tok != "," && p.l.tok != "::" && p.l.tok != "{" {
				// consume type tokens
				depth := 0
				for p.l.kind != "eof" && !(depth == 0 && (p.l.tok == "," || p.l.tok == "::" || p.l.tok == "{")) {
					if p.l.tok == "[" {
						depth++
					}
					if p.l.tok == "]" {
						depth--
					}
					p.l.next()
				}
				tend := p.l.pos - len(p.l.tok)
				v.Type = strings.TrimSpace(p.l.s[tstart:tend])
			}
			vars = append(vars, v)
			if p.accept(",") {
				continue
			}
			break
		}
		var trig [][]*Expr
		for p.accept("{") {
			var group []*Expr
			for {
				group = append(group, p.expr())
				if p.accept(",") {
					continue
				}
				p.expect("}")
				break
			}
			trig = append(trig, group)
		}
		p.expect("::")
		body := p.expr()
		return &Expr{Op: op, Vars: vars, Args: []*Expr{body}, Trig: trig}
	}
	e := p.iff()
	if p.accept("?") {
		a := p.expr()
		p.expect(":")
		b := p.expr()
		return &Expr{Op: "cond", Args: []*Expr{e, a, b}}
	}
	return e
}

func (p *parser) iff() *Expr {
	e := p.implies()
	for p.accept("<==>") {
		r := p.implies()
		e = &Expr{Op: "binary", Name: "<==>", Args: []*Expr{e, r}}
	}
	return e
}

func (p *parser) implies() *Expr {
	e := p.or()
	if p.accept("==>") {
		var r *Expr
		if p.l.kind == "id" && (p.l.tok == "forall" || p.l.tok == "exists") {
			r = p.expr()
		} else {
			r = p.implies()
		}
		return &Expr{Op: "binary", Name: "==>", Args: []*Expr{e, r}}
	}
	return e
}

func (p *parser) or() *Expr {
	e := p.and()
	for p.accept("||") {
		r := p.and()
		e = &Expr{Op: "binary", Name: "||", Args: []*Expr{e, r}}
	}
	return e
}

func (p *parser) and() *Expr {
	e := p.cmp()
	for p.accept("&&") {
		r := p.cmp()
		e = &Expr{Op: "binary", Name: "&&", Args: []*Expr{e, r}}
	}
	return e
}

func (p *parser) cmp() *Expr {
	e := p.add()
	for _, op := range []string{"==", "!=", "<=", ">=", "<", ">"} {
		if p.l.kind == "op" && p.l.tok == op {
			p.l.next()
			r := p.add()
			return &Expr{Op: "binary", Name: op, Args: []*Expr{e, r}}
		}
	}
	return e
}

func (p *parser) add() *Expr {
	e := p.mul()
	for p.l.kind == "op" && (p.l.tok == "+" || p.l.tok == "-") {
		op := p.l.tok
		p.l.next()
		r := p.mul()
		e = &Expr{Op: "binary", Name: op, Args: []*Expr{e, r}}
	}
	return e
}

func (p *parser) mul() *Expr {
	e := p.unary()
	for p.l.kind == "op" && (p.l.tok == "*" || p.l.tok == "/" || p.l.tok == "%") {
		op := p.l.tok
		p.l.next()
		r := p.unary()
		e = &Expr{Op: "binary", Name: op, Args: []*Expr{e, r}}
	}
	return e
}

func (p *parser) unary() *Expr {
	if p.l.kind == "op" && (p.l.tok == "!" || p.l.tok == "-") {
		op := p.l.tok
		p.l.next()
		return &Expr{Op: "unary", Name: op, Args: []*Expr{p.unary()}}
	}
	return p.postfix()
}

func (p *parser) postfix() *Expr {
	e := p.primary()
	for p.err == nil {
		switch {
		case p.accept("."):
			if p.l.kind != "id" {
				p.fail("field name expected")
				return e
			}
			e = &Expr{Op: "sel", Name: p.l.tok, Args: []*Expr{e}}
			p.l.next()
		case p.accept("["):
			i := p.expr()
			p.expect("]")
			e = &Expr{Op: "index", Args: []*Expr{e, i}}
		case p.l.kind == "op" && p.l.tok == "(" && (e.Op == "ident" || e.Op == "sel"):
			p.l.next()
			var args []*Expr
			if !p.accept(")") {
				for {
					args = append(args, p.expr())
					if p.accept(",") {
						continue
					}
					p.expect(")")
					break
				}
			}
			name := e.Name
			if e.Op == "sel" {
				name = exprString(e)
			}
			e = &Expr{Op: "call", Name: name, Args: args}
		default:
			return e
		}
	}
	return e
}

func (p *parser) primary() *Expr {
	switch p.l.kind {
	case "id":
		e := &Expr{Op: "ident", Name: p.l.tok}
		p.l.next()
		return e
	case "num":
		e := &Expr{Op: "num", Name: p.l.tok}
		p.l.next()
		return e
	case "str":
		e := &Expr{Op: "str", Name: p.l.tok}
		p.l.next()
		return e
	case "op":
		if p.accept("(") {
			e := p.expr()
			p.expect(")")
			return e
		}
	}
	p.fail("unexpected %q at %d", p.l.tok, p.l.pos)
	return &Expr{Op: "num", Name: "0"}
}

func exprString(e *Expr) string {
	switch e.Op {
	case "ident", "num":
		return e.Name
	case "sel":
		return exprString(e.Args[0]) + "." + e.Name
	}
	return "?"
}

var _ = ast.NewIdent

// findSpec resolves a spec function name from a contract of package p: the package's own declaration first, otherwise
// the only declaration of that name anywhere (several packages may declare functions of the same name; they are
// different functions).
func (db *ContractDB) findSpec(p *packages.Package, name string) *SpecFunc {
	if p != nil {
		if sf, ok := db.specs[p.PkgPath+"\x00"+name]; ok {
			return sf
		}
	}
	if l := db.specsByName[name]; len(l) == 1 {
		return l[0]
	}
	return nil
}

// smtName: the solver-level name of an uninterpreted spec function; qualified by its package when the name is
// declared in more than one.
func (db *ContractDB) smtName(sf *SpecFunc) string {
	if len(db.specsByName[sf.Name]) > 1 && sf.Pkg != nil {
		return "spec_" + sanitize(strings.TrimPrefix(sf.Pkg.PkgPath, repoPrefix+"/")) + "_" + sf.Name
	}
	return "spec_" + sf.Name
}

// findExtern: the extern contract for a dependency's function as seen from code of package pkgPath.
func (db *ContractDB) findExtern(pkgPath, full string) *FuncContract {
	if fc, ok := db.externs[pkgPath+"\x00"+full]; ok {
		return fc
	}
	if l := db.externsByName[full]; len(l) == 1 {
		return l[0]
	}
	return nil
}
