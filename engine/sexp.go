package main

import "strings"

// minimal s-expression handling used to split conjunctive goals

type sx struct {
	atom string
	list []*sx
}

func parseSx(s string) *sx {
	var stack []*sx
	root := &sx{}
	stack = append(stack, root)
	tok := strings.Builder{}
	flush := func() {
		if tok.Len() > 0 {
			top := stack[len(stack)-1]
			top.list = append(top.list, &sx{atom: tok.String()})
			tok.Reset()
		}
	}
	for i := 0; i < len(s); i++ {
		c := s[i]
		switch c {
		case '(':
			flush()
			n := &sx{list: []*sx{}}
			top := stack[len(stack)-1]
			top.list = append(top.list, n)
			stack = append(stack, n)
		case ')':
			flush()
			if len(stack) > 1 {
				stack = stack[:len(stack)-1]
			}
		case ' ', '\n', '\t':
			flush()
		default:
			tok.WriteByte(c)
		}
	}
	flush()
	if len(root.list) == 1 {
		return root.list[0]
	}
	return root
}

func (x *sx) String() string {
	if x.list == nil {
		return x.atom
	}
	parts := make([]string, len(x.list))
	for i, y := range x.list {
		parts[i] = y.String()
	}
	return "(" + strings.Join(parts, " ") + ")"
}

func (x *sx) head() string {
	if x.list != nil && len(x.list) > 0 && x.list[0].list == nil {
		return x.list[0].atom
	}
	return ""
}

func conjuncts(x *sx) []*sx {
	if x.head() == "and" {
		var out []*sx
		for _, y := range x.list[1:] {
			out = append(out, conjuncts(y)...)
		}
		return out
	}
	return []*sx{x}
}

// splitGoal splits a goal into goals whose conjunction is equivalent to it.
func splitGoal(cond string) []string {
	x := parseSx(cond)
	var out []string
	switch x.head() {
	case "and":
		for _, c := range conjuncts(x) {
			out = append(out, splitGoal(c.String())...)
		}
	case "forall":
		if len(x.list) != 3 {
			return []string{cond}
		}
		binders, body := x.list[1], x.list[2]
		if body.head() == "!" && len(body.list) >= 2 {
			body = body.list[1] // pattern annotations are irrelevant in a goal
		}
		if body.head() == "=>" && len(body.list) == 3 {
			cs := conjuncts(body.list[2])
			if len(cs) == 1 {
				return []string{cond}
			}
			for _, c := range cs {
				out = append(out, "(forall "+binders.String()+" (=> "+body.list[1].String()+" "+c.String()+"))")
			}
		} else {
			cs := conjuncts(body)
			if len(cs) == 1 {
				return []string{cond}
			}
			for _, c := range cs {
				out = append(out, "(forall "+binders.String()+" "+c.String()+")")
			}
		}
	case "=>":
		if len(x.list) == 3 {
			cs := splitGoal(x.list[2].String())
			if len(cs) == 1 {
				return []string{cond}
			}
			for _, c := range cs {
				out = append(out, "(=> "+x.list[1].String()+" "+c+")")
			}
		}
	default:
		return []string{cond}
	}
	if len(out) == 0 {
		return []string{cond}
	}
	return out
}
