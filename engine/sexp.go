package main

import "strings"

// minimal s-expression handling used to split conjunctive goals

type sx struct {
	atom string
	list []*sx
}

func parseSx(s string) *sx {
	var stack []*sx
	root := &sx{}
	stack = append(stack, root)
	tok := strings.Builder{}
	flush := func() {
		if tok.Len() > 0 {
			top := stack[len(stack)-1]
			top.list = append(top.list, &sx{atom: tok.String()})
			tok.Reset()
		}
	}
	for i := 0; i < len(s); i++ {
		c := s[i]
		switch c {
		case '(':
			flush()
			n := &sx{list: []*sx{}}
			top := stack[len(stack)-1]
			top.list = append(top.list, n)
			stack = append(stack, n)
		case ')':
			flush()
			if len(stack) > 1 {
				stack = stack[:len(stack)-1]
			}
		case ' ', '\n', '\t':
			flush()
		default:
			tok.WriteByte(c)
		}
	}
	flush()
	if len(root.list) == 1 {
		return root.list[0]
	}
	return root
}

func (x *sx) String() string {
	if x.list == nil {
		return x.atom
	}
	parts := make([]string, len(x.list))
	for i, y := range x.list {
		parts[i] = y.String()
	}
	return "(" + strings.Join(parts, " ") + ")"
}

func (x *sx) head() string {
	if x.list != nil && len(x.list) > 0 && x.list[0].list == nil {
		return x.list[0].atom
	}
	return ""
}

func conjuncts(x *sx) []*sx {
	if x.head() == "and" {
		var out []*sx
		for _, y := range x.list[1:] {
			out = append(out, conjuncts(y)...)
		}
		return out
	}
	return []*sx{x}
}

// splitGoal splits a goal into goals whose conjunction is equivalent to it: conjunctions are split,
// also below universal quantifiers and on the right of implications.
func splitGoal(cond string) []string {
	parts := splitSx(parseSx(cond))
	if len(parts) <= 1 {
		return []string{cond}
	}
	if len(parts) > 24 {
		return []string{cond}
	}
	out := make([]string, len(parts))
	for i, p := range parts {
		out[i] = p.String()
	}
	return out
}

func splitSx(x *sx) []*sx {
	switch x.head() {
	case "and":
		var out []*sx
		for _, c := range x.list[1:] {
			out = append(out, splitSx(c)...)
		}
		return out
	case "!":
		if len(x.list) >= 2 {
			return splitSx(x.list[1])
		}
	case "forall":
		if len(x.list) == 3 {
			var out []*sx
			for _, b := range splitSx(x.list[2]) {
				out = append(out, &sx{list: []*sx{{atom: "forall"}, x.list[1], b}})
			}
			return out
		}
	case "=>":
		if len(x.list) == 3 {
			var out []*sx
			for _, c := range splitSx(x.list[2]) {
				out = append(out, &sx{list: []*sx{{atom: "=>"}, x.list[1], c}})
			}
			return out
		}
	case "ite":
		// (ite c a b) as a formula: (c => a) and (not c => b)
		if len(x.list) == 4 {
			var out []*sx
			for _, a := range splitSx(x.list[2]) {
				out = append(out, &sx{list: []*sx{{atom: "=>"}, x.list[1], a}})
			}
			nc := &sx{list: []*sx{{atom: "not"}, x.list[1]}}
			for _, b := range splitSx(x.list[3]) {
				out = append(out, &sx{list: []*sx{{atom: "=>"}, nc, b}})
			}
			return out
		}
	}
	return []*sx{x}
}
