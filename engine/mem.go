package main

import (
	"fmt"
	"go/types"
)

// inHeap reports whether the address denotes a location inside the heap whose
// enclosing struct chain is addressable by an Int address term.
func inHeap(a Addr) bool {
	switch x := a.(type) {
	case ObjAddr:
		return true
	case FieldOf:
		return inHeap(x.Base)
	}
	return false
}

// heapAddrTerm gives the Int address of a heap-resident struct location.
func (fr *FuncRun) heapAddrTerm(a Addr) string {
	switch x := a.(type) {
	case ObjAddr:
		return x.Ref
	case FieldOf:
		base := fr.heapAddrTerm(x.Base)
		fn := fr.w.FAddr(x.Struct, x.Idx)
		t := "(" + fn + " " + base + ")"
		key := "fa:" + t
		if !hasBound(t) && fr.once(key) {
			fr.emit(fmt.Sprintf("(assert (and (= (fa_tag %s) %d) (= (fa_base %s) %s) (< %s 0) (= (fa_root %s) (fa_root %s))))", t, fr.w.faTag(x.Struct, x.Idx), t, base, t, t, base))
		}
		return t
	}
	panic("heapAddrTerm: not a heap address")
}

func fieldType(structT types.Type, idx int) types.Type {
	return structT.Underlying().(*types.Struct).Field(idx).Type()
}

func isStruct(t types.Type) bool {
	_, ok := t.Underlying().(*types.Struct)
	return ok
}

// addrTerm converts an address into a pointer value term.
func (fr *FuncRun) addrTerm(a Addr) string {
	switch x := a.(type) {
	case ObjAddr:
		return x.Ref
	case FieldOf:
		if inHeap(x) {
			ft := fieldType(x.Struct, x.Idx)
			if !isStruct(ft) {
				// address of a scalar field escapes as a value: the engine keeps
				// scalar fields in per-field heaps, so writes through this pointer
				// would be lost. Only allowed for sync/atomic-like uses (never
				// dereferenced by Vouch code).
				fr.assumed["abstraction: the address of scalar field "+fieldName(x.Struct, x.Idx)+" is passed on as a value; writes through that pointer are not modelled"] = true
			}
			return fr.heapAddrTerm(x)
		}
	case CellAddr:
		fr.errorf("address of static cell escapes as a value")
		return fr.fresh(sInt, "cellptr")
	}
	fr.errorf("unsupported address escaping as a value: %T", a)
	return fr.fresh(sInt, "addr")
}

func fieldName(structT types.Type, idx int) string {
	return structT.Underlying().(*types.Struct).Field(idx).Name()
}

// load reads the value of type t at address a.
func (fr *FuncRun) load(st *State, a Addr, t types.Type) Val {
	w := fr.w
	srt := w.SortOf(t)
	switch x := a.(type) {
	case CellAddr:
		if v, ok := st.cells[x.Key]; ok {
			return v
		}
		// uninitialised cell (e.g. free variable of a stand-alone closure)
		v := Val{T: fr.fresh(srt, "cell"), S: srt}
		fr.rangeAssume(st, v.T, t)
		st.cells[x.Key] = v
		return v
	case ObjAddr:
		if isStruct(t) {
			return fr.loadStructAt(st, x.Ref, t)
		}
		h := w.CellHeap(t)
		v := Val{T: fr.def(srt, sel(fr.heapCur(st, h), x.Ref)), S: srt}
		fr.rangeAssume(st, v.T, t)
		return v
	case FieldOf:
		ft := fieldType(x.Struct, x.Idx)
		if inHeap(x.Base) {
			base := fr.heapAddrTerm(x.Base)
			if isStruct(ft) {
				return fr.loadStructAt(st, fr.heapAddrTerm(x), ft)
			}
			h := w.FieldHeap(x.Struct, x.Idx)
			v := Val{T: fr.def(srt, sel(fr.heapCur(st, h), base)), S: srt}
			fr.rangeAssume(st, v.T, ft)
			return v
		}
		bv := fr.load(st, x.Base, x.Struct)
		info := w.structInfoOf(x.Struct)
		return Val{T: fr.def(srt, fmt.Sprintf("(f%d_%s %s)", x.Idx, info.name, bv.T)), S: srt}
	case IndexOf:
		arrT := types.NewArray(x.Elem, 0)
		_ = arrT
		bv := fr.loadRaw(st, x.Base)
		return Val{T: fr.def(srt, sel(bv.T, x.Idx)), S: srt}
	case ElemOf:
		h := w.ElemHeap(x.Elem)
		v := Val{T: fr.def(srt, fr.w.At(x.Elem, sel(fr.heapCur(st, h), x.Arr), x.Off, x.I)), S: srt}
		fr.rangeAssume(st, v.T, x.Elem)
		return v
	}
	panic("load: bad address")
}

// loadRaw loads the container value at an address whose type we derive from the address.
func (fr *FuncRun) loadRaw(st *State, a Addr) Val {
	switch x := a.(type) {
	case CellAddr:
		if v, ok := st.cells[x.Key]; ok {
			return v
		}
		fr.errorf("read of unknown cell")
		return Val{T: "0", S: sInt}
	case ObjAddr:
		return fr.load(st, a, x.Elem)
	case FieldOf:
		return fr.load(st, a, fieldType(x.Struct, x.Idx))
	case ElemOf:
		return fr.load(st, a, x.Elem)
	case IndexOf:
		return fr.load(st, a, x.Elem)
	}
	panic("loadRaw")
}

func (fr *FuncRun) loadStructAt(st *State, addr string, t types.Type) Val {
	info := fr.w.structInfoOf(t)
	if info.st.NumFields() == 0 {
		return Val{T: "mk_" + info.name, S: info.name}
	}
	s := "(mk_" + info.name
	for i := 0; i < info.st.NumFields(); i++ {
		fv := fr.load(st, FieldOf{Base: ObjAddr{Ref: addr, Elem: t}, Idx: i, Struct: t}, info.st.Field(i).Type())
		s += " " + fv.T
	}
	s += ")"
	return Val{T: fr.def(info.name, s), S: info.name}
}

// store writes v (of type t) at address a.
func rootFresh(a Addr) bool {
	switch x := a.(type) {
	case ObjAddr:
		return x.Fresh
	case FieldOf:
		return rootFresh(x.Base)
	case IndexOf:
		return rootFresh(x.Base)
	case ElemOf:
		return x.Fresh
	}
	return false
}

// rootRef: the reference term of the object an address lies in ("" when not an object address).
func rootRef(a Addr) string {
	switch x := a.(type) {
	case ObjAddr:
		return x.Ref
	case FieldOf:
		return rootRef(x.Base)
	case IndexOf:
		return rootRef(x.Base)
	case ElemOf:
		return x.Arr
	}
	return ""
}

func (fr *FuncRun) store(st *State, a Addr, t types.Type, v Val) {
	w := fr.w
	saved, savedRoot := fr.curWriteFresh, fr.curWriteRoot
	fr.curWriteFresh = saved || rootFresh(a)
	if r := rootRef(a); r != "" {
		fr.curWriteRoot = r
	}
	defer func() { fr.curWriteFresh, fr.curWriteRoot = saved, savedRoot }()
	switch x := a.(type) {
	case CellAddr:
		st.cells[x.Key] = v
		fr.noteCellWrite(x.Key)
		fr.logCellStore(x.Key, v)
	case ObjAddr:
		if isStruct(t) {
			fr.storeStructAt(st, x.Ref, t, v)
			return
		}
		h := w.CellHeap(t)
		fr.heapSet(st, h, sto(fr.heapCur(st, h), x.Ref, v.T))
	case FieldOf:
		ft := fieldType(x.Struct, x.Idx)
		if inHeap(x.Base) {
			if isStruct(ft) {
				fr.storeStructAt(st, fr.heapAddrTerm(x), ft, v)
				return
			}
			base := fr.heapAddrTerm(x.Base)
			h := w.FieldHeap(x.Struct, x.Idx)
			fr.heapSet(st, h, sto(fr.heapCur(st, h), base, v.T))
			return
		}
		// functional update of the containing struct value
		bv := fr.load(st, x.Base, x.Struct)
		info := w.structInfoOf(x.Struct)
		s := "(mk_" + info.name
		for i := 0; i < info.st.NumFields(); i++ {
			if i == x.Idx {
				s += " " + v.T
			} else {
				s += fmt.Sprintf(" (f%d_%s %s)", i, info.name, bv.T)
			}
		}
		s += ")"
		fr.store(st, x.Base, x.Struct, Val{T: fr.def(info.name, s), S: info.name})
	case IndexOf:
		bv := fr.loadRaw(st, x.Base)
		nv := Val{T: fr.def(bv.S, sto(bv.T, x.Idx, v.T)), S: bv.S}
		fr.storeRaw(st, x.Base, nv)
	case ElemOf:
		h := w.ElemHeap(x.Elem)
		cur := fr.heapCur(st, h)
		es := "(Array Int " + w.SortOf(x.Elem) + ")"
		oldInner := fr.constFor(es, sel(cur, x.Arr), "oldinner")
		newInner := fr.constFor(es, sto(oldInner, x.Idx, v.T), "eleminner")
		fr.heapSet(st, h, sto(cur, x.Arr, newInner))
		if x.Off != "" && !hasBound(x.I) {
			j := fr.freshName("j")
			x.Off = fr.constFor(sInt, x.Off, "off")
			fr.assume(st, fmt.Sprintf("(forall ((%s Int)) (! (=> (not (= %s %s)) (= %s %s)) :pattern (%s)))", j, j, x.I,
				w.At(x.Elem, newInner, x.Off, j), w.At(x.Elem, oldInner, x.Off, j), w.At(x.Elem, newInner, x.Off, j)))
			fr.assume(st, eq(w.At(x.Elem, newInner, x.Off, x.I), v.T))
		}
	default:
		panic("store: bad address")
	}
}

func (fr *FuncRun) storeRaw(st *State, a Addr, v Val) {
	switch x := a.(type) {
	case CellAddr:
		st.cells[x.Key] = v
		fr.noteCellWrite(x.Key)
	case ObjAddr:
		fr.store(st, a, x.Elem, v)
	case FieldOf:
		fr.store(st, a, fieldType(x.Struct, x.Idx), v)
	case ElemOf:
		fr.store(st, a, x.Elem, v)
	case IndexOf:
		fr.store(st, a, x.Elem, v)
	}
}

func (fr *FuncRun) storeStructAt(st *State, addr string, t types.Type, v Val) {
	info := fr.w.structInfoOf(t)
	for i := 0; i < info.st.NumFields(); i++ {
		ft := info.st.Field(i).Type()
		fv := Val{T: fr.def(fr.w.SortOf(ft), fmt.Sprintf("(f%d_%s %s)", i, info.name, v.T)), S: fr.w.SortOf(ft)}
		fr.store(st, FieldOf{Base: ObjAddr{Ref: addr, Elem: t}, Idx: i, Struct: t}, ft, fv)
	}
}

// rangeAssume adds the machine-range fact for unsigned integers, well-formedness of
// slices and interfaces.
func (fr *FuncRun) rangeAssume(st *State, term string, t types.Type) {
	if hasBound(term) {
		return
	}
	if bits, ok := isUnsigned(t); ok {
		key := "rng:" + term
		if !fr.once(key) {
			return
		}
		fr.emit(fmt.Sprintf("(assert (and (<= 0 %s) (< %s %s)))", term, term, pow2(bits)))
		return
	}
	switch t.Underlying().(type) {
	case *types.Slice:
		key := "rng:" + term
		if !fr.once(key) {
			return
		}
		fr.emit(fmt.Sprintf("(assert (and (<= 0 (s-arr %s)) (<= 0 (s-off %s)) (<= 0 (s-len %s)) (<= (s-len %s) (s-cap %s)) (=> (= (s-arr %s) 0) (= (s-cap %s) 0))))", term, term, term, term, term, term, term))
	case *types.Interface:
		key := "rng:" + term
		if !fr.once(key) {
			return
		}
		fr.emit(fmt.Sprintf("(assert (and (<= 0 (i-typ %s)) (=> (= (i-typ %s) 0) (= (i-val %s) 0))))", term, term, term))
	case *types.Basic:
		if t.Underlying().(*types.Basic).Info()&types.IsString != 0 {
			key := "rng:" + term
			if !fr.once(key) {
				return
			}
			fr.emit(fmt.Sprintf("(assert (and (<= 0 (strlen %s)) (= (= (strlen %s) 0) (= %s 0))))", term, term, term))
		}
	case *types.Map:
		// map length is non-negative and zero for nil
		key := "rng:" + term
		if !fr.once(key) {
			return
		}
		ml := fr.heapCur(st, fr.w.MapLenHeap())
		fr.emit(fmt.Sprintf("(assert (and (<= 0 %s) (<= 0 (select %s %s))))", term, ml, term))
	}
}

// allocRef allocates a fresh non-nil reference distinct from all earlier ones.
func (fr *FuncRun) allocRef(hint string) string {
	r := fr.fresh(sInt, hint)
	fr.emit(fmt.Sprintf("(assert (> %s 0))", r))
	// distinct from earlier allocations and from entry-state references: modelled with
	// an allocation counter: fresh refs are above AllocBase and strictly increasing.
	// (the very next address: between two allocation marks there is nothing but the objects of one call, see bumpAllocTop)
	fr.emit(fmt.Sprintf("(assert (= %s (+ %s 1)))", r, fr.allocTop))
	fr.emit(fmt.Sprintf("(assert (= (fa_root %s) %s))", r, r))
	fr.emit(fmt.Sprintf("(assert (<= (born %s) %s))", r, r))
	fr.allocTop = r
	fr.freshRefs[r] = true
	return r
}

// bumpAllocTop: a call (of a callee under contract, or of external code) may allocate. The objects it allocates lie
// between the allocation mark at the call and a new, later mark, and whatever is stored in them existed by that mark.
func (fr *FuncRun) bumpAllocTop() {
	lo := fr.allocTop
	nt := fr.fresh(sInt, "alloctop")
	fr.emit(fmt.Sprintf("(assert (>= %s %s))", nt, lo))
	x := fr.freshName("x")
	fr.emit(fmt.Sprintf("(assert (forall ((%s Int)) (! (=> (and (< %s %s) (<= %s %s)) (<= (born %s) %s)) :pattern ((born %s)))))", x, lo, x, x, nt, x, nt, x))
	fr.allocTop = nt
}
