package main

// Assumed contracts for functions outside /repo (the stub table). Every stub used in a run is
// listed in the evidence under assumed_contracts.

import (
	"fmt"
	"go/token"
	"go/types"
	"strings"

	"golang.org/x/tools/go/ssa"
)

func (fr *FuncRun) nonNilError(st *State, hint string) Val {
	v := Val{T: fr.fresh(sIface, hint), S: sIface}
	fr.assume(st, "(> (i-typ "+v.T+") 0)")
	return v
}

// variadicElems returns the elements of a variadic []interface{} argument when its length is
// statically known.
func (fr *FuncRun) variadicElems(f *Frame, st *State, arg ssa.Value, av Val) ([]string, bool) {
	sl, ok := arg.(*ssa.Slice)
	if !ok {
		if c, isC := arg.(*ssa.Const); isC && c.Value == nil {
			return nil, true
		}
		return nil, false
	}
	pt, ok := sl.X.Type().Underlying().(*types.Pointer)
	if !ok {
		return nil, false
	}
	at, ok := pt.Elem().Underlying().(*types.Array)
	if !ok {
		return nil, false
	}
	st2 := arg.Type().Underlying().(*types.Slice)
	eh := fr.w.ElemHeap(st2.Elem())
	var out []string
	for i := int64(0); i < at.Len(); i++ {
		out = append(out, fr.def(fr.w.SortOf(st2.Elem()), fr.w.At(st2.Elem(), sel(fr.heapCur(st, eh), "(s-arr "+av.T+")"), "(s-off "+av.T+")", fmt.Sprintf("%d", i))))
	}
	return out, true
}

func (fr *FuncRun) sprintfTerm(format string, elems []string) string {
	name := fmt.Sprintf("sprintf_%d", len(elems))
	ps := []string{"Int"}
	for range elems {
		ps = append(ps, sIface)
	}
	fr.w.declFun(name, fmt.Sprintf("(declare-fun %s (%s) Int)", name, strings.Join(ps, " ")))
	return "(" + name + " " + strings.Join(append([]string{format}, elems...), " ") + ")"
}

func (fr *FuncRun) stubCall(f *Frame, st *State, c *ssa.CallCommon, callee *ssa.Function, full string, args []Val, pos token.Pos) (Val, bool) {
	w := fr.w
	used := func() { fr.assumed["stub "+trimPath(full)] = true }
	sig := callee.Signature
	switch full {
	case "errors.New", "github.com/pkg/errors.New", "github.com/pkg/errors.Errorf", "fmt.Errorf":
		used()
		return fr.nonNilError(st, "err"), true
	case "github.com/pkg/errors.Wrap", "github.com/pkg/errors.Wrapf", "github.com/pkg/errors.WithStack", "github.com/pkg/errors.WithMessage", "github.com/pkg/errors.WithMessagef":
		used()
		v := Val{T: fr.fresh(sIface, "wrapped"), S: sIface}
		fr.rangeAssume(st, v.T, sig.Results().At(0).Type())
		fr.assume(st, eq(eq("(i-typ "+v.T+")", "0"), eq("(i-typ "+args[0].T+")", "0")))
		return v, true
	case "errors.Join":
		used()
		return fr.havocResults(st, sig.Results(), "joined"), true
	case "fmt.Sprintf":
		used()
		if elems, ok := fr.variadicElems(f, st, c.Args[1], args[1]); ok {
			r := fr.def(sInt, fr.sprintfTerm(args[0].T, elems))
			fr.rangeAssume(st, r, types.Typ[types.String])
			return Val{T: r, S: sInt}, true
		}
		r := fr.fresh(sInt, "sprintf")
		fr.rangeAssume(st, r, types.Typ[types.String])
		return Val{T: r, S: sInt}, true
	case "context.WithTimeout", "context.WithCancel", "context.WithDeadline":
		used()
		ctx := Val{T: fr.fresh(sIface, "ctx"), S: sIface}
		fr.assume(st, "(> (i-typ "+ctx.T+") 0)")
		cancel := Val{T: fr.allocRef("cancel"), S: sInt}
		return Val{Tup: []Val{ctx, cancel}}, true
	case "context.Background", "context.TODO", "context.WithValue":
		used()
		ctx := Val{T: fr.fresh(sIface, "ctx"), S: sIface}
		fr.assume(st, "(> (i-typ "+ctx.T+") 0)")
		return ctx, true
	case "bytes.Equal":
		used()
		if args[0].ArrBack != nil && args[1].ArrBack != nil && args[0].ArrLen == args[1].ArrLen {
			// both operands are whole arrays viewed as slices: equality of the arrays
			a, b := fr.loadRaw(st, args[0].ArrBack), fr.loadRaw(st, args[1].ArrBack)
			return Val{T: fr.def(sBool, eq(a.T, b.T)), S: sBool}, true
		}
		return Val{T: fr.fresh(sBool, "bytes_equal"), S: sBool}, true
	case "strings.Contains", "strings.HasPrefix", "strings.HasSuffix", "strings.EqualFold":
		used()
		n := "str_" + callee.Name()
		w.declFun(n, fmt.Sprintf("(declare-fun %s (Int Int) Bool)", n))
		return Val{T: fr.def(sBool, "("+n+" "+args[0].T+" "+args[1].T+")"), S: sBool}, true
	case "strings.TrimSpace", "strings.ToLower", "strings.ToUpper":
		used()
		n := "str_" + callee.Name()
		w.declFun(n, fmt.Sprintf("(declare-fun %s (Int) Int)", n))
		r := fr.def(sInt, "("+n+" "+args[0].T+")")
		fr.rangeAssume(st, r, types.Typ[types.String])
		return Val{T: r, S: sInt}, true
	case "strings.TrimPrefix", "strings.TrimSuffix", "strings.Trim", "strings.TrimLeft", "strings.TrimRight":
		used()
		n := "str_" + callee.Name()
		w.declFun(n, fmt.Sprintf("(declare-fun %s (Int Int) Int)", n))
		r := fr.def(sInt, "("+n+" "+args[0].T+" "+args[1].T+")")
		fr.rangeAssume(st, r, types.Typ[types.String])
		fr.assume(st, "(<= (strlen "+r+") (strlen "+args[0].T+"))")
		return Val{T: r, S: sInt}, true
	case "strings.ReplaceAll":
		used()
		w.declFun("str_ReplaceAll", "(declare-fun str_ReplaceAll (Int Int Int) Int)")
		r := fr.def(sInt, "(str_ReplaceAll "+args[0].T+" "+args[1].T+" "+args[2].T+")")
		fr.rangeAssume(st, r, types.Typ[types.String])
		return Val{T: r, S: sInt}, true
	case "strings.LastIndex", "strings.Index":
		used()
		n := "str_" + callee.Name()
		w.declFun(n, fmt.Sprintf("(declare-fun %s (Int Int) Int)", n))
		r := fr.def(sInt, "("+n+" "+args[0].T+" "+args[1].T+")")
		fr.assume(st, and("(>= "+r+" (- 1))", implies(not(eq(r, "(- 1)")), "(<= "+r+" (- (strlen "+args[0].T+") (strlen "+args[1].T+")))"), implies("(> (strlen "+args[1].T+") (strlen "+args[0].T+"))", eq(r, "(- 1)"))))
		return Val{T: r, S: sInt}, true
	case "time.Now":
		used()
		return fr.havocResults(st, sig.Results(), "now"), true
	case "sort.Slice", "sort.SliceStable":
		used()
		// permutes the elements of this slice: header unchanged, the elements afterwards are a permutation of the
		// elements before (every new element is one of the old ones), other arrays untouched
		n := ""
		if sl, ok := c.Args[0].(*ssa.MakeInterface); ok {
			if stp, ok := sl.X.Type().Underlying().(*types.Slice); ok {
				sv := fr.val(f, st, sl.X)
				h := w.ElemHeap(stp.Elem())
				old := fr.heapCur(st, h)
				es := w.SortOf(stp.Elem())
				row := fr.fresh("(Array Int "+es+")", "sorted")
				perm := fr.freshName("perm")
				fr.emit(fmt.Sprintf("(declare-fun %s (Int) Int)", perm))
				i := fr.freshName("i")
				arr := fr.def(sInt, "(s-arr "+sv.T+")")
				off := fr.def(sInt, "(s-off "+sv.T+")")
				ln := fr.def(sInt, "(s-len "+sv.T+")")
				oldrow := fr.def("(Array Int "+es+")", sel(old, arr))
				newAt, oldAt := w.At(stp.Elem(), row, off, i), w.At(stp.Elem(), oldrow, off, "("+perm+" "+i+")")
				fr.assume(st, fmt.Sprintf("(forall ((%s Int)) (! (=> (and (<= 0 %s) (< %s %s)) (and (<= 0 (%s %s)) (< (%s %s) %s) (= %s %s))) :pattern (%s)))",
					i, i, i, ln, perm, i, perm, i, ln, newAt, oldAt, newAt))
				fr.assume(st, fmt.Sprintf("(forall ((%s Int)) (! (=> (not (and (<= %s %s) (< %s (+ %s %s)))) (= (select %s %s) (select %s %s))) :pattern ((select %s %s))))",
					i, off, i, i, off, ln, row, i, oldrow, i, row, i))
				fr.heapSet(st, h, sto(old, arr, row))
				n = ln
			}
		}
		// the comparison function is called with indices inside the slice, on some permutation of it
		if n != "" && len(args) == 2 && args[1].Clo != nil && len(args[1].Clo.Fn.Blocks) > 0 && len(args[1].Clo.Fn.Params) == 2 {
			clo := args[1].Clo
			iv, jv := fr.fresh(sInt, "less_i"), fr.fresh(sInt, "less_j")
			fr.assume(st, and("(<= 0 "+iv+")", "(< "+iv+" "+n+")", "(<= 0 "+jv+")", "(< "+jv+" "+n+")"))
			cargs := []Val{{T: iv, S: sInt}, {T: jv, S: sInt}}
			if fc := fr.eng.contracts.lookupFunc(clo.Fn); fc != nil && !fr.eng.inlineAll {
				fr.assertClosurePre(f, st, fc, clo, cargs, pos)
			} else {
				sub := st.clone()
				fr.inlineCall(f, sub, clo.Fn, clo, cargs, pos)
			}
		}
		return Val{T: "0", S: sInt}, true
	}
	switch full {
	case "github.com/prysmaticlabs/go-bitfield.NewBitlist":
		used()
		ref := fr.allocRef("bitlist")
		bl, bs := w.heap("BitLen", "(Array Int Int)"), w.heap("BitSet", "(Array Int (Array Int Bool))")
		fr.curWriteFresh = true
		fr.heapSet(st, bl, sto(fr.heapCur(st, bl), ref, args[0].T))
		fr.heapSet(st, bs, sto(fr.heapCur(st, bs), ref, "((as const (Array Int Bool)) false)"))
		fr.curWriteFresh = false
		ln := fr.fresh(sInt, "bitlistbytes")
		fr.assume(st, "(> "+ln+" 0)")
		return Val{T: fr.def(sSlice, fmt.Sprintf("(mk-slice %s 0 %s %s)", ref, ln, ln)), S: sSlice, FreshArr: true}, true
	case "(github.com/prysmaticlabs/go-bitfield.Bitlist).SetBitAt":
		used()
		bl, bs := w.heap("BitLen", "(Array Int Int)"), w.heap("BitSet", "(Array Int (Array Int Bool))")
		arr := "(s-arr " + args[0].T + ")"
		cur := fr.heapCur(st, bs)
		inRange := "(< " + args[1].T + " " + sel(fr.heapCur(st, bl), arr) + ")"
		saved := fr.curWriteFresh
		fr.curWriteFresh = args[0].FreshArr
		fr.heapSet(st, bs, sto(cur, arr, ite(inRange, sto(sel(cur, arr), args[1].T, args[2].T), sel(cur, arr))))
		fr.curWriteFresh = saved
		return Val{T: "0", S: sInt}, true
	case "(github.com/prysmaticlabs/go-bitfield.Bitlist).Len":
		used()
		bl := w.heap("BitLen", "(Array Int Int)")
		return Val{T: fr.def(sInt, sel(fr.heapCur(st, bl), "(s-arr "+args[0].T+")")), S: sInt}, true
	case "(github.com/prysmaticlabs/go-bitfield.Bitlist).BitAt":
		used()
		bl, bs := w.heap("BitLen", "(Array Int Int)"), w.heap("BitSet", "(Array Int (Array Int Bool))")
		arr := "(s-arr " + args[0].T + ")"
		return Val{T: fr.def(sBool, and("(< "+args[1].T+" "+sel(fr.heapCur(st, bl), arr)+")", sel(sel(fr.heapCur(st, bs), arr), args[1].T))), S: sBool}, true
	}
	if v, ok := fr.bigStub(f, st, c, callee, full, args, pos); ok {
		used()
		return v, true
	}
	if callee.Name() == "IsZero" && sig.Recv() != nil && sig.Params().Len() == 0 {
		if _, isArr := sig.Recv().Type().Underlying().(*types.Array); isArr {
			used()
			return Val{T: fr.def(sBool, eq(args[0].T, w.Zero(sig.Recv().Type()))), S: sBool}, true
		}
	}
	// time.Time / time.Duration arithmetic: nanosecond model
	if strings.HasPrefix(full, "(time.Time).") || strings.HasPrefix(full, "(time.Duration).") || strings.HasPrefix(full, "time.") {
		if v, ok := fr.timeStub(f, st, c, callee, full, args); ok {
			used()
			return v, true
		}
	}
	return Val{}, false
}

// timeStub: time.Time is its go/types struct as a datatype; `time_ns` maps it to integer
// nanoseconds since the epoch (assumption: no monotonic-clock effects, no overflow).
func (fr *FuncRun) timeStub(f *Frame, st *State, c *ssa.CallCommon, callee *ssa.Function, full string, args []Val) (Val, bool) {
	w := fr.w
	sig := callee.Signature
	var timeT types.Type
	if sig.Recv() != nil && strings.HasSuffix(sig.Recv().Type().String(), "time.Time") {
		timeT = sig.Recv().Type()
	} else if sig.Results().Len() == 1 && sig.Results().At(0).Type().String() == "time.Time" {
		timeT = sig.Results().At(0).Type()
	}
	ns := func(t string) string {
		return "(time_ns " + t + ")"
	}
	declNs := func() {
		if timeT != nil {
			w.declFun("time_ns", fmt.Sprintf("(declare-fun time_ns (%s) Int)", w.SortOf(timeT)))
		}
	}
	freshTime := func(nsTerm string) Val {
		declNs()
		srt := w.SortOf(timeT)
		v := Val{T: fr.fresh(srt, "time"), S: srt}
		fr.assume(st, eq(ns(v.T), nsTerm))
		return v
	}
	switch full {
	case "(time.Time).Add":
		declNs()
		return freshTime("(+ " + ns(args[0].T) + " " + args[1].T + ")"), true
	case "(time.Time).Sub":
		declNs()
		return Val{T: fr.def(sInt, "(- "+ns(args[0].T)+" "+ns(args[1].T)+")"), S: sInt}, true
	case "(time.Time).Before":
		declNs()
		return Val{T: fr.def(sBool, "(< "+ns(args[0].T)+" "+ns(args[1].T)+")"), S: sBool}, true
	case "(time.Time).After":
		declNs()
		return Val{T: fr.def(sBool, "(> "+ns(args[0].T)+" "+ns(args[1].T)+")"), S: sBool}, true
	case "(time.Time).Equal":
		declNs()
		return Val{T: fr.def(sBool, eq(ns(args[0].T), ns(args[1].T))), S: sBool}, true
	case "(time.Time).Unix":
		declNs()
		return Val{T: fr.def(sInt, "(div "+ns(args[0].T)+" 1000000000)"), S: sInt}, true
	case "(time.Time).UnixNano":
		declNs()
		return Val{T: ns(args[0].T), S: sInt}, true
	case "time.Unix":
		return freshTime("(+ (* " + args[0].T + " 1000000000) " + args[1].T + ")"), true
	case "time.Until":
		timeT = c.Args[0].Type()
		declNs()
		now := fr.fresh(sInt, "now_ns")
		return Val{T: fr.def(sInt, "(- "+ns(args[0].T)+" "+now+")"), S: sInt}, true
	case "time.Since":
		timeT = c.Args[0].Type()
		declNs()
		now := fr.fresh(sInt, "now_ns")
		return Val{T: fr.def(sInt, "(- "+now+" "+ns(args[0].T)+")"), S: sInt}, true
	case "(time.Duration).Seconds":
		r := fr.def(sReal, "(/ (to_real "+args[0].T+") 1000000000.0)")
		// remembered so that a conversion back to an integer is an integer division (exact in the real model)
		if fr.realQuot == nil {
			fr.realQuot = map[string][2]string{}
		}
		fr.realQuot[r] = [2]string{args[0].T, "1000000000"}
		return Val{T: r, S: sReal}, true
	case "(time.Duration).Milliseconds":
		return Val{T: fr.def(sInt, "(ite (>= "+args[0].T+" 0) (div "+args[0].T+" 1000000) (- (div (- "+args[0].T+") 1000000)))"), S: sInt}, true
	case "(time.Duration).Nanoseconds":
		return args[0], true
	}
	return Val{}, false
}

// bigStub: math/big.Int as a reference to an object whose mathematical value lives in the ghost heap
// BigVal; uint256.Int and decimal.Decimal values are mapped to integers by uninterpreted functions.
func (fr *FuncRun) bigStub(f *Frame, st *State, c *ssa.CallCommon, callee *ssa.Function, full string, args []Val, pos token.Pos) (Val, bool) {
	w := fr.w
	bv := w.heap("BigVal", "(Array Int Int)")
	ref := func(v Val) string { return fr.valTerm(v) }
	nonNil := func(i int) {
		if i < len(c.Args) {
			if v := args[i]; v.Addr == nil || !rootFresh(v.Addr) {
				fr.assertOb(st, "nil", exprText(c.Args[i])+" (big.Int operand)", not(eq(ref(args[i]), "0")), pos, "nil *big.Int operand")
			}
		}
	}
	setVal := func(z, val string, fresh bool) {
		saved := fr.curWriteFresh
		fr.curWriteFresh = fresh
		fr.heapSet(st, bv, sto(fr.heapCur(st, bv), z, val))
		fr.curWriteFresh = saved
	}
	get := func(x string) string { return sel(fr.heapCur(st, bv), x) }
	switch full {
	case "math/big.NewInt":
		r := fr.allocRef("big")
		setVal(r, args[0].T, true)
		return Val{T: r, S: sInt, Addr: ObjAddr{Ref: r, Elem: callee.Signature.Results().At(0).Type().(*types.Pointer).Elem(), Fresh: true}}, true
	case "(*math/big.Int).Add", "(*math/big.Int).Sub", "(*math/big.Int).Mul", "(*math/big.Int).Div", "(*math/big.Int).Quo":
		nonNil(0)
		nonNil(1)
		nonNil(2)
		z, x, y := ref(args[0]), ref(args[1]), ref(args[2])
		var val string
		switch callee.Name() {
		case "Add":
			val = "(+ " + get(x) + " " + get(y) + ")"
		case "Sub":
			val = "(- " + get(x) + " " + get(y) + ")"
		case "Mul":
			val = "(* " + get(x) + " " + get(y) + ")"
		case "Div":
			fr.assertOb(st, "div0", exprText(c.Args[2])+" (big.Int divisor)", not(eq(get(y), "0")), pos, "big.Int division by zero")
			val = "(div " + get(x) + " " + get(y) + ")"
		case "Quo":
			fr.assertOb(st, "div0", exprText(c.Args[2])+" (big.Int divisor)", not(eq(get(y), "0")), pos, "big.Int division by zero")
			val = fmt.Sprintf("(ite (>= %s 0) (div %s %s) (- (div (- %s) %s)))", get(x), get(x), get(y), get(x), get(y))
		}
		fresh := args[0].Addr != nil && rootFresh(args[0].Addr)
		setVal(z, fr.def(sInt, val), fresh)
		return args[0], true
	case "(*math/big.Int).Cmp":
		nonNil(0)
		nonNil(1)
		x, y := get(ref(args[0])), get(ref(args[1]))
		return Val{T: fr.def(sInt, fmt.Sprintf("(ite (< %s %s) (- 1) (ite (= %s %s) 0 1))", x, y, x, y)), S: sInt}, true
	case "(*math/big.Int).Sign":
		nonNil(0)
		x := get(ref(args[0]))
		return Val{T: fr.def(sInt, fmt.Sprintf("(ite (< %s 0) (- 1) (ite (= %s 0) 0 1))", x, x)), S: sInt}, true
	case "(*math/big.Int).String", "(*math/big.Int).Text":
		return fr.havocResults(st, callee.Signature.Results(), "bigstr"), true
	case "(*github.com/holiman/uint256.Int).ToBig":
		nonNil(0)
		w.declFun("u256_of", "(declare-fun u256_of ((Array Int Int)) Int)")
		arr := fr.load(st, fr.ptrAddr(args[0], c.Args[0]), c.Args[0].Type().(*types.Pointer).Elem())
		r := fr.allocRef("big")
		v := fr.def(sInt, "(u256_of "+arr.T+")")
		fr.assume(st, "(>= "+v+" 0)")
		setVal(r, v, true)
		return Val{T: r, S: sInt, Addr: ObjAddr{Ref: r, Elem: callee.Signature.Results().At(0).Type().(*types.Pointer).Elem(), Fresh: true}}, true
	case "(*github.com/holiman/uint256.Int).Cmp":
		nonNil(0)
		nonNil(1)
		w.declFun("u256_of", "(declare-fun u256_of ((Array Int Int)) Int)")
		a := fr.load(st, fr.ptrAddr(args[0], c.Args[0]), c.Args[0].Type().(*types.Pointer).Elem())
		b := fr.load(st, fr.ptrAddr(args[1], c.Args[1]), c.Args[1].Type().(*types.Pointer).Elem())
		x, y := "(u256_of "+a.T+")", "(u256_of "+b.T+")"
		fr.assume(st, "(and (>= "+x+" 0) (>= "+y+" 0) (= (u256_of ((as const (Array Int Int)) 0)) 0))")
		return Val{T: fr.def(sInt, fmt.Sprintf("(ite (< %s %s) (- 1) (ite (= %s %s) 0 1))", x, y, x, y)), S: sInt}, true
	case "(*github.com/holiman/uint256.Int).Sub", "(*github.com/holiman/uint256.Int).Add", "(*github.com/holiman/uint256.Int).Mul":
		// z.Op(x, y) stores a (here unspecified) value in z and returns z
		nonNil(0)
		nonNil(1)
		nonNil(2)
		if a, ok := fr.ptrAddr(args[0], c.Args[0]).(ObjAddr); ok {
			fr.havocObject(st, a, c.Args[0].Type().Underlying().(*types.Pointer).Elem())
		}
		return args[0], true
	case "github.com/holiman/uint256.NewInt":
		r := fr.allocRef("u256")
		return Val{T: r, S: sInt, Addr: ObjAddr{Ref: r, Elem: callee.Signature.Results().At(0).Type().(*types.Pointer).Elem(), Fresh: true}}, true
	case "(github.com/shopspring/decimal.Decimal).BigInt":
		srt := w.SortOf(c.Args[0].Type())
		w.declFun("dec_bigint", fmt.Sprintf("(declare-fun dec_bigint (%s) Int)", srt))
		r := fr.allocRef("big")
		setVal(r, "(dec_bigint "+args[0].T+")", true)
		return Val{T: r, S: sInt, Addr: ObjAddr{Ref: r, Elem: callee.Signature.Results().At(0).Type().(*types.Pointer).Elem(), Fresh: true}}, true
	}
	return Val{}, false
}

// ptrAddr interprets a pointer value as an address.
func (fr *FuncRun) ptrAddr(v Val, sv ssa.Value) Addr {
	if v.Addr != nil {
		return v.Addr
	}
	return ObjAddr{Ref: v.T, Elem: sv.Type().Underlying().(*types.Pointer).Elem()}
}

// assertClosurePre asserts the preconditions of a closure under contract that external code (sort.Slice) will
// call with the given arguments; captured variables are read through the closure's bindings.
func (fr *FuncRun) assertClosurePre(f *Frame, st *State, fc *FuncContract, clo *Closure, args []Val, pos token.Pos) {
	fn := clo.Fn
	nf := fr.newFrame(fn, f)
	for i, p := range fn.Params {
		if i < len(args) {
			nf.regs[p] = args[i]
		}
	}
	for i, fv := range fn.FreeVars {
		if i < len(clo.Bind) {
			nf.bind[fv] = clo.Bind[i]
			nf.bindVal[fv] = clo.BVal[i]
		}
	}
	ctx := &EvalCtx{fr: fr, f: nf, st: st, old: st, pkg: fr.eng.pkgOf(fn), binds: fr.paramBinds(fn, args), freshBase: fr.allocTop}
	for i, r := range fc.Requires {
		t := fr.evalClause(ctx, r)
		fr.assertOb(st, "pre", fmt.Sprintf("%s:%d", fn.Name(), i+1), t, pos, "precondition of "+fc.Name+" (called by sort.Slice): "+r.Text)
	}
}
