package main

import (
	"bytes"
	"context"
	"fmt"
	"os"
	"os/exec"
	"path/filepath"
	"strings"
	"sync"
	"time"
)

type SolverCfg struct {
	TimeoutS int
	Dir      string // scratch dir for .smt2 files
	Seed     int
	Jobs     int
	Keep     bool
}

type solverOut struct {
	solver string
	answer string // sat unsat unknown timeout error
	output string
	ms     int64
}

func queryText(res *FuncResult, ob *Obligation, cvc bool) string {
	var b strings.Builder
	if cvc {
		b.WriteString("(set-option :produce-models true)\n(set-logic ALL)\n")
	}
	b.WriteString(res.Prelude)
	for _, l := range res.Lines[:ob.Prefix] {
		b.WriteString(l)
		b.WriteByte('\n')
	}
	if ob.Kind == "cover" {
		// satisfiability of the prefix (expect sat)
		if ob.Reach != "" && ob.Reach != "true" {
			fmt.Fprintf(&b, "(assert %s)\n", ob.Reach)
		}
		b.WriteString("(check-sat)\n")
		return b.String()
	}
	fmt.Fprintf(&b, "(assert %s)\n(assert (not %s))\n(check-sat)\n(get-model)\n", ob.Reach, ob.Cond)
	return b.String()
}

func runSolver(ctx context.Context, name string, args []string, file string, timeout time.Duration) solverOut {
	start := time.Now()
	cctx, cancel := context.WithTimeout(ctx, timeout+2*time.Second)
	defer cancel()
	cmd := exec.CommandContext(cctx, args[0], append(args[1:], file)...)
	var out bytes.Buffer
	cmd.Stdout = &out
	cmd.Stderr = &out
	_ = cmd.Run()
	ms := time.Since(start).Milliseconds()
	text := out.String()
	first := strings.TrimSpace(strings.SplitN(text, "\n", 2)[0])
	ans := "error"
	switch first {
	case "sat", "unsat", "unknown":
		ans = first
	case "timeout":
		ans = "timeout"
	default:
		if cctx.Err() != nil {
			ans = "timeout"
		}
	}
	return solverOut{solver: name, answer: ans, output: text, ms: ms}
}

// solveOne races the three solvers on one obligation.
func solveOne(res *FuncResult, ob *Obligation, cfg *SolverCfg, idx int) {
	if ob.Static {
		return
	}
	if ob.Kind != "cover" && (ob.Cond == "true" || ob.Reach == "false") {
		ob.Status, ob.Solver = "discharged", "govc-trivial"
		return
	}
	// conjunctive goals are solved conjunct by conjunct first (smaller, more stable queries)
	if ob.Kind != "cover" && !ob.splitDone {
		parts := splitGoal(ob.Cond)
		if len(parts) > 1 {
			all := true
			var total int64
			for pi, part := range parts {
				sub := &Obligation{Name: ob.Name, Kind: ob.Kind, Prefix: ob.Prefix, Reach: ob.Reach, Cond: part, splitDone: true}
				solveOne(res, sub, cfg, idx*1000+pi)
				total += sub.Ms
				if sub.Ms > ob.MaxPartMs {
					ob.MaxPartMs = sub.Ms
				}
				if sub.Status != "discharged" {
					all = false
					if sub.Status == "refuted" {
						ob.Status, ob.Solver, ob.Model, ob.Output, ob.Ms = "refuted", sub.Solver, sub.Model, sub.Output, total
						return
					}
					break
				}
			}
			if all {
				ob.Status, ob.Solver, ob.Ms = "discharged", fmt.Sprintf("split-%d", len(parts)), total
				return
			}
		}
	}
	base := filepath.Join(cfg.Dir, fmt.Sprintf("ob_%d_%d", os.Getpid(), idx))
	fz := base + ".smt2"
	fc := base + ".cvc.smt2"
	os.WriteFile(fz, []byte(queryText(res, ob, false)), 0o644)
	os.WriteFile(fc, []byte(queryText(res, ob, true)), 0o644)
	if !cfg.Keep {
		defer os.Remove(fz)
		defer os.Remove(fc)
	}
	toS := cfg.TimeoutS
	if ob.Kind == "cover" && toS > 3 {
		toS = 3
	}
	if ob.Kind == "cover" && ob.PrePrefix > 0 {
		// a contradiction between a postcondition and the state at the call is found at once or not at all
		toS = 1
	}
	to := time.Duration(toS) * time.Second
	ctx, cancel := context.WithCancel(context.Background())
	defer cancel()
	ch := make(chan solverOut, 3)
	solvers := []struct {
		name string
		args []string
		file string
	}{
		{"z3-5.1.0", []string{"z3-new", fmt.Sprintf("-T:%d", toS), fmt.Sprintf("smt.random_seed=%d", cfg.Seed)}, fz},
		{"z3-4.8.12", []string{"z3", fmt.Sprintf("-T:%d", toS), fmt.Sprintf("smt.random_seed=%d", cfg.Seed)}, fz},
		{"cvc5-1.0", []string{"cvc5", fmt.Sprintf("--tlimit=%d", toS*1000), fmt.Sprintf("--seed=%d", cfg.Seed)}, fc},
	}
	for _, s := range solvers {
		s := s
		go func() { ch <- runSolver(ctx, s.name, s.args, s.file, to) }()
	}
	var outs []solverOut
	want := "unsat"
	if ob.Kind == "cover" {
		want = "sat"
	}
	for i := 0; i < len(solvers); i++ {
		o := <-ch
		outs = append(outs, o)
		if o.answer == want {
			ob.Status, ob.Solver, ob.Ms = "discharged", o.solver, o.ms
			cancel()
			return
		}
		if ob.Kind != "cover" && o.answer == "sat" && !strings.HasPrefix(o.solver, "cvc5") {
			ob.Status, ob.Solver, ob.Ms, ob.Model, ob.Output = "refuted", o.solver, o.ms, o.output, o.output
			cancel()
			return
		}
		if ob.Kind == "cover" && o.answer == "unsat" {
			cancel()
			if ob.PrePrefix > 0 {
				// the continuation after a call is infeasible: vacuous only if the call itself was reachable
				// (satisfiability of quantified prefixes is rarely established by the solvers, so the test is: the state
				// after the call is refuted, the state before it is not)
				pre := &Obligation{Name: ob.Name, Kind: "cover", Prefix: ob.PrePrefix, Reach: ob.PreReach}
				solveOne(res, pre, cfg, idx*1000+999)
				if pre.Status == "refuted" {
					ob.Status, ob.Solver, ob.Ms = "discharged", "dead-code", o.ms+pre.Ms
				} else {
					ob.Status, ob.Solver, ob.Ms, ob.Output = "refuted", o.solver, o.ms+pre.Ms, "the callee's postcondition contradicts what is known at the call: everything after the call is proved vacuously"
				}
				return
			}
			ob.Status, ob.Solver, ob.Ms, ob.Output = "refuted", o.solver, o.ms, "preconditions are contradictory"
			return
		}
	}
	ob.Status = "unknown"
	var sb strings.Builder
	for _, o := range outs {
		fmt.Fprintf(&sb, "[%s: %s in %d ms] %s\n", o.solver, o.answer, o.ms, firstLines(o.output, 3))
		if o.ms > ob.Ms {
			ob.Ms = o.ms
		}
		if o.answer == "sat" {
			ob.Status, ob.Solver, ob.Model = "refuted", o.solver, o.output
		}
	}
	ob.Output = sb.String()
	if ob.Kind == "cover" && ob.Status == "unknown" {
		// an undecided cover is not evidence of vacuity
		ob.Status, ob.Solver = "discharged", "undecided-cover"
	}
}

func firstLines(s string, n int) string {
	ls := strings.Split(s, "\n")
	if len(ls) > n {
		ls = ls[:n]
	}
	return strings.Join(ls, " | ")
}

func solveAll(results []*FuncResult, cfg *SolverCfg, only func(*Obligation) bool) {
	type job struct {
		res *FuncResult
		ob  *Obligation
		idx int
	}
	var jobs []job
	n := 0
	for _, r := range results {
		for _, ob := range r.Obls {
			n++
			if only != nil && !only(ob) {
				continue
			}
			jobs = append(jobs, job{r, ob, n})
		}
	}
	var wg sync.WaitGroup
	sem := make(chan struct{}, cfg.Jobs)
	for _, j := range jobs {
		j := j
		wg.Add(1)
		sem <- struct{}{}
		go func() {
			defer wg.Done()
			defer func() { <-sem }()
			solveOne(j.res, j.ob, cfg, j.idx)
		}()
	}
	wg.Wait()
}
