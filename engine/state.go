package main

import (
	"fmt"
	"go/token"
	"go/types"
	"os"
	"regexp"
	"sort"
	"strconv"
	"strings"

	"golang.org/x/tools/go/ssa"
)

// Val is a symbolic value: an SMT term with its sort, plus static side information.
type Val struct {
	T        string // SMT term
	S        string // sort
	Tup      []Val  // tuple components (calls returning several results, Next, Select, comma-ok)
	Addr     Addr   // statically resolved address (for Alloc / FieldAddr / IndexAddr results)
	Clo      *Closure
	Prov     *Prov
	FreshArr bool // slice whose backing array was allocated in this run (never an entry-state array)
	ArrBack  Addr // slice made by slicing an addressable array in full: address of that array
	ArrLen   int64
}

// Closure is a statically known closure value.
type Closure struct {
	Fn   *ssa.Function
	Bind []Addr // one per free variable
	BVal []Val
}

// Prov records that a value was loaded from a lock-guarded field.
type Prov struct {
	MuAddr    string // term for the mutex address
	Field     string
	MuText    string
	Unguarded bool // loaded from a field of a shared structure that has no guard
	Replaced  bool // loaded from a guarded field whose object is immutable once published
}

// Addr is a statically resolved address.
type Addr interface{ addr() }

type CellAddr struct{ Key cellKey }
type ObjAddr struct {
	Ref    string
	Elem   types.Type
	Fresh  bool // allocated in this run
	NonNil bool // known non-nil (fresh objects, globals)
}
type FieldOf struct {
	Base   Addr
	Idx    int
	Struct types.Type
}
type IndexOf struct {
	Base Addr
	Idx  string
	Elem types.Type
}
type ElemOf struct {
	Arr   string
	Off   string // slice offset
	I     string // index relative to the slice
	Idx   string // Off + I
	Elem  types.Type
	Fresh bool
}

func (CellAddr) addr() {}
func (ObjAddr) addr()  {}
func (FieldOf) addr()  {}
func (IndexOf) addr()  {}
func (ElemOf) addr()   {}

type cellKey struct {
	frame int
	v     interface{} // *ssa.Alloc, *ssa.FreeVar or ghost name (string)
}

type deferRec struct {
	frame  *Frame
	common *ssa.CallCommon
	args   []Val
	fnVal  Val
	instr  *ssa.Defer
}

// State is the symbolic state at a program point.
type State struct {
	reach  string
	cells  map[cellKey]Val
	heaps  map[string]string
	defers []*deferRec
	// spawned: what the goroutines started on the way to this state may write (shared from here on); immutable,
	// replaced by a new set when it grows
	spawned *WriteSet
}

func (s *State) clone() *State {
	n := &State{reach: s.reach, cells: make(map[cellKey]Val, len(s.cells)), heaps: make(map[string]string, len(s.heaps)), spawned: s.spawned}
	for k, v := range s.cells {
		n.cells[k] = v
	}
	for k, v := range s.heaps {
		n.heaps[k] = v
	}
	n.defers = append([]*deferRec{}, s.defers...)
	return n
}

// Frame is one activation of a function (top-level or inlined).
type Frame struct {
	id       int
	fn       *ssa.Function
	regs     map[ssa.Value]Val
	bind     map[*ssa.FreeVar]Addr
	bindVal  map[*ssa.FreeVar]Val
	depth    int
	top      bool
	params   []Val
	entry    *State
	contract *FuncContract
	iters    map[ssa.Value]*iterInfo
	callOrd  map[string]int // callee short name -> ordinal counter (static, per frame)
	static   map[*ssa.Alloc]bool
	parent   *Frame
	curBlk   *ssa.BasicBlock
	// loops of this frame whose automatic frame is the weak one (objects that existed at function entry are
	// unchanged): every write inside them to an address that is neither loop-invariant nor statically fresh must
	// be proved to hit an object allocated by this function (obligation kind loop-frame)
	weakLoops map[*ssa.BasicBlock]*weakLoop
	autoLock  map[*ssa.BasicBlock][]autoLockInv
}

type weakLoop struct {
	body   map[*ssa.BasicBlock]bool
	heaps  map[string]bool
	marker int
}

type iterInfo struct {
	mapVal  Val
	mapType *types.Map
	visited cellKey
	count   cellKey
	domAt   string // domain heap version when the iteration started
	isStr   bool
}

// Obligation is one proof obligation.
type Obligation struct {
	Name   string
	Kind   string
	Fn     string
	Prefix int // number of body lines that form the assumption prefix
	Reach  string
	Cond   string
	Pos    token.Position
	Desc   string
	// results
	Status    string // discharged / refuted / unknown
	Solver    string
	Ms        int64
	MaxPartMs int64 // for goals solved conjunct by conjunct: the slowest conjunct
	Model     string
	Output    string
	Static    bool // decided by the engine without a solver
	splitDone bool
	// cover obligations after a call under contract: the state just before the call (an infeasible continuation
	// is only a vacuity alarm when the call itself was reachable)
	PrePrefix int
	PreReach  string
}

type WriteSet struct {
	heaps    map[string]bool
	oldHeaps map[string]bool // heaps with at least one write to a non-fresh object
	cells    map[cellKey]bool
}

func newWriteSet() *WriteSet {
	return &WriteSet{heaps: map[string]bool{}, oldHeaps: map[string]bool{}, cells: map[cellKey]bool{}}
}

// FuncRun is the verification run of one function.
type FuncRun struct {
	countersTouched map[string]bool // ghost counters (calls:X, sends) advanced in this run
	eng             *Engine
	w               *World
	fn              *ssa.Function
	lines           []string
	nfresh          int
	nframes         int
	obls            []*Obligation
	scout           int
	curFrame        *Frame
	defTerm         map[string]string    // names introduced by def/defAlways/constFor and the terms they abbreviate
	curWriteRoot    string               // root reference of the object being written (when known)
	realQuot        map[string][2]string // real-valued definitions known to be an integer over a positive constant
	curPos          token.Pos
	wsStack         []*WriteSet
	names           map[string]int // obligation base name -> count
	mutexes         []mutexRef
	errors          []string
	assumed         map[string]bool // assumptions used (stub names etc.)
	topFrame        *Frame
	allWrites       *WriteSet
	inlineStack     []*ssa.Function
	allocTop        string
	scoutingHead    *ssa.BasicBlock
	backStates      []*State
	assumedOrder    []string
	pendingBack     []pendingBackEdge
	constGlobals    map[string]string
	curInstr        string
	addrLog         map[string][]addrWrite
	cellLog         map[cellKey][]Val
	sharedAtomics   bool
	stats           map[string]int
	callsiteSeen    map[string]bool
	callOrdGlobal   map[string]int
	freshHeapWrites map[string]bool
	oldHeapWrites   map[string]bool
	freshRefs       map[string]bool
	curWriteFresh   bool
	noAssume        bool
	ordCache        map[*ssa.Function]map[*ssa.CallCommon]int
}

type mutexRef struct {
	addr string
	text string
}

func (fr *FuncRun) emit(line string) { fr.lines = append(fr.lines, line) }

// once reports whether the ground axiom identified by key still has to be emitted.
func (fr *FuncRun) once(key string) bool {
	if fr.assumed[key] {
		return false
	}
	fr.assumed[key] = true
	fr.assumedOrder = append(fr.assumedOrder, key)
	return true
}

type runMark struct{ lines, keys int }

func (fr *FuncRun) mark() runMark { return runMark{len(fr.lines), len(fr.assumedOrder)} }

// rollback discards everything emitted since the mark (used after scouting passes).
func (fr *FuncRun) rollback(m runMark) {
	fr.lines = fr.lines[:m.lines]
	for _, k := range fr.assumedOrder[m.keys:] {
		delete(fr.assumed, k)
	}
	fr.assumedOrder = fr.assumedOrder[:m.keys]
}

func (fr *FuncRun) freshName(hint string) string {
	fr.nfresh++
	return fmt.Sprintf("%s_%d", sanitize(hint), fr.nfresh)
}

// fresh declares a new unconstrained constant.
func (fr *FuncRun) fresh(sort, hint string) string {
	n := fr.freshName(hint)
	fr.emit(fmt.Sprintf("(declare-fun %s () %s)", n, sort))
	return n
}

// def names a term (to keep the VC a DAG).
func hasBound(s string) bool { return strings.Contains(s, "bv!") }

func (fr *FuncRun) def(sort, expr string) string {
	if len(expr) < 48 || hasBound(expr) {
		return expr
	}
	n := fr.freshName("v")
	fr.emit(fmt.Sprintf("(declare-fun %s () %s)", n, sort))
	fr.emit(fmt.Sprintf("(assert (= %s %s))", n, expr))
	fr.noteDef(n, expr)
	return n
}

// constFor introduces a declared constant equal to expr (usable inside :pattern annotations, where
// defined macros containing ite/and/not are not allowed).
func (fr *FuncRun) constFor(sort, expr, hint string) string {
	n := fr.fresh(sort, hint)
	fr.emit(fmt.Sprintf("(assert (= %s %s))", n, expr))
	fr.noteDef(n, expr)
	return n
}

func (fr *FuncRun) defAlways(sort, expr, hint string) string {
	// a declared constant with a defining equation (not a macro: macros containing ite/and/or are
	// expanded by the solvers and make :pattern annotations that mention them illegal)
	n := fr.freshName(hint)
	fr.emit(fmt.Sprintf("(declare-fun %s () %s)", n, sort))
	fr.emit(fmt.Sprintf("(assert (= %s %s))", n, expr))
	fr.noteDef(n, expr)
	return n
}

// assume adds a fact guarded by the reach condition of the state.
func (fr *FuncRun) assume(st *State, fact string) {
	if fact == "true" {
		return
	}
	if st.reach == "true" {
		fr.emit(fmt.Sprintf("(assert %s)", fact))
	} else {
		fr.emit(fmt.Sprintf("(assert (=> %s %s))", st.reach, fact))
	}
}

// assertOb records an obligation and then assumes it.
func (fr *FuncRun) assertOb(st *State, kind, base string, cond string, pos token.Pos, desc string) {
	if fr.scout > 0 {
		return
	}
	if cond == "true" {
		// still count as trivially discharged obligation
	}
	fr.names[kind+":"+base]++
	k := fr.names[kind+":"+base]
	name := fmt.Sprintf("%s#%s:%s", fr.fnName(), kind, base)
	if k > 1 || needsOrdinal(kind) {
		name = fmt.Sprintf("%s#%d", name, k)
	}
	ob := &Obligation{Name: name, Kind: kind, Fn: fr.fnName(), Prefix: len(fr.lines), Reach: st.reach, Cond: cond, Desc: desc}
	if pos.IsValid() {
		ob.Pos = fr.eng.prog.Fset.Position(pos)
	}
	fr.obls = append(fr.obls, ob)
	if !fr.noAssume {
		fr.assume(st, cond)
	}
}

func needsOrdinal(kind string) bool {
	switch kind {
	case "nil", "index", "slice", "div0", "nilmap-store", "assert-type", "guarded", "lock-reentry", "unlock-not-held", "slice2array", "pre", "closed-send", "lockinv", "explicit-panic", "negative-len", "unguarded-write", "loop-frame":
		return true
	}
	return false
}

func (fr *FuncRun) fnName() string { return funcDisplayName(fr.fn) }

func funcDisplayName(fn *ssa.Function) string {
	pkg := ""
	if fn.Pkg != nil {
		pkg = fn.Pkg.Pkg.Path()
	} else if fn.Parent() != nil && fn.Parent().Pkg != nil {
		pkg = fn.Parent().Pkg.Pkg.Path()
	}
	pkg = strings.TrimPrefix(pkg, "github.com/attestantio/vouch/")
	return pkg + "." + funcShortName(fn)
}

// funcShortName: "(*Service).Attest", "Attest$1", "New".
func funcShortName(fn *ssa.Function) string {
	if fn.Parent() != nil {
		// closure: Parent$N
		return funcShortName(fn.Parent()) + fn.Name()[strings.LastIndex(fn.Name(), "$"):]
	}
	if recv := fn.Signature.Recv(); recv != nil {
		t := recv.Type()
		ptr := ""
		if p, ok := t.(*types.Pointer); ok {
			ptr = "*"
			t = p.Elem()
		}
		name := t.String()
		if n, ok := t.(*types.Named); ok {
			name = n.Obj().Name()
		}
		return "(" + ptr + name + ")." + fn.Name()
	}
	return fn.Name()
}

func (fr *FuncRun) errorf(format string, args ...interface{}) {
	msg := fmt.Sprintf(format, args...)
	for _, e := range fr.errors {
		if e == msg {
			return
		}
	}
	fr.errors = append(fr.errors, msg)
}

func (fr *FuncRun) noteHeapWrite(h string) {
	for _, ws := range fr.wsStack {
		ws.heaps[h] = true
		if !fr.curWriteFresh {
			ws.oldHeaps[h] = true
		}
	}
	fr.allWrites.heaps[h] = true
	if os.Getenv("GOVC_DEBUG_WRITES") != "" && !fr.curWriteFresh {
		fmt.Fprintf(os.Stderr, "old-write %s scout=%d at %s\n", h, fr.scout, fr.curInstr)
	}
	if fr.curWriteFresh {
		fr.freshHeapWrites[h] = true
	} else {
		fr.oldHeapWrites[h] = true
	}
}
func (fr *FuncRun) noteCellWrite(k cellKey) {
	for _, ws := range fr.wsStack {
		ws.cells[k] = true
	}
}

func (fr *FuncRun) logCellStore(k cellKey, v Val) {
	if fr.cellLog != nil && v.S == sSlice {
		fr.cellLog[k] = append(fr.cellLog[k], v)
	}
}

// heap access --------------------------------------------------------------

func (fr *FuncRun) heapCur(st *State, h string) string {
	if v, ok := st.heaps[h]; ok {
		return v
	}
	return h + "_0"
}

func (fr *FuncRun) heapSet(st *State, h, term string) {
	sort := fr.w.heapSorts[h]
	if fr.scout == 0 && !fr.curWriteFresh && fr.curFrame != nil {
		fr.loopFrameCheck(st, h, storeAddr(term))
	}
	st.heaps[h] = fr.defAlways(sort, term, h)
	fr.noteHeapWrite(h)
	if fr.addrLog != nil {
		fr.addrLog[h] = append(fr.addrLog[h], addrWrite{term: storeAddr(term), fresh: fr.curWriteFresh, root: fr.curWriteRoot})
	}
}

type addrWrite struct {
	term  string
	fresh bool
	root  string // reference of the written object's root, "" when unknown
}

// storeAddr extracts the index of the outermost (store H idx val) term.
func storeAddr(term string) string {
	if !strings.HasPrefix(term, "(store ") {
		return "?"
	}
	i := len("(store ")
	// skip the heap argument
	i = skipSexp(term, i)
	for i < len(term) && term[i] == ' ' {
		i++
	}
	j := skipSexp(term, i)
	return term[i:j]
}

func skipSexp(s string, i int) int {
	if i >= len(s) {
		return i
	}
	if s[i] != '(' {
		for i < len(s) && s[i] != ' ' && s[i] != ')' {
			i++
		}
		return i
	}
	d := 0
	for ; i < len(s); i++ {
		if s[i] == '(' {
			d++
		} else if s[i] == ')' {
			d--
			if d == 0 {
				return i + 1
			}
		}
	}
	return i
}

var suffixRe = regexp.MustCompile(`_(\d+)\b`)

// invariantTerm: every generated name in the term was created before the marker.
func invariantTerm(term string, marker int) bool {
	if term == "?" || hasBound(term) {
		return false
	}
	for _, m := range suffixRe.FindAllStringSubmatch(term, -1) {
		n, _ := strconv.Atoi(m[1])
		if n > marker {
			return false
		}
	}
	return true
}

// freshHeap introduces an unconstrained version of heap h that is well-formed.
func (fr *FuncRun) freshHeap(h string) string {
	v := fr.fresh(fr.w.heapSorts[h], h)
	for _, ax := range fr.w.HeapWF(h, v, fr.allocTop) {
		fr.emit(ax)
	}
	for g, gh := range fr.constGlobals {
		if gh == h {
			fr.emit(fmt.Sprintf("(assert (= (select %s %s) (select %s_0 %s)))", v, g, h, g))
		}
	}
	if ref, ok := fr.w.fieldOfHeap[h]; ok && fr.eng.initOnlyField(ref.t, ref.idx) {
		// a field that is only ever stored to when its object is created keeps its value in every object of the
		// entry state, whatever else is forgotten about the heap
		a := fr.freshName("a")
		fr.emit(fmt.Sprintf("(assert (forall ((%s Int)) (! (=> (oldaddr %s) (= (select %s %s) (select %s_0 %s))) :pattern ((select %s %s)))))", a, a, v, a, h, a, v, a))
		fr.assumed["fields that are only stored to at the creation of their object keep their value (scan of the defining package)"] = true
	}
	return v
}

func (fr *FuncRun) heapHavoc(st *State, h string) {
	st.heaps[h] = fr.freshHeap(h)
	fr.noteHeapWrite(h)
	if fr.addrLog != nil {
		fr.addrLog[h] = append(fr.addrLog[h], addrWrite{term: "?", fresh: false})
	}
}

func sel(a, i string) string    { return "(select " + a + " " + i + ")" }
func sto(a, i, v string) string { return "(store " + a + " " + i + " " + v + ")" }
func and(xs ...string) string   { return nary("and", "true", xs) }
func or(xs ...string) string    { return nary("or", "false", xs) }
func not(x string) string {
	if x == "true" {
		return "false"
	}
	if x == "false" {
		return "true"
	}
	return "(not " + x + ")"
}
func implies(a, b string) string {
	if a == "true" {
		return b
	}
	return "(=> " + a + " " + b + ")"
}
func eq(a, b string) string { return "(= " + a + " " + b + ")" }
func ite(c, a, b string) string {
	if a == b {
		return a
	}
	return "(ite " + c + " " + a + " " + b + ")"
}
func nary(op, unit string, xs []string) string {
	var ys []string
	for _, x := range xs {
		if x == unit {
			continue
		}
		ys = append(ys, x)
	}
	if len(ys) == 0 {
		return unit
	}
	if len(ys) == 1 {
		return ys[0]
	}
	return "(" + op + " " + strings.Join(ys, " ") + ")"
}

// merge joins several incoming states.
func (fr *FuncRun) merge(ins []*State) *State {
	if len(ins) == 1 {
		return ins[0].clone()
	}
	out := &State{cells: map[cellKey]Val{}, heaps: map[string]string{}}
	for _, s := range ins {
		out.spawned = unionWS(out.spawned, s.spawned)
	}
	reaches := make([]string, len(ins))
	for i, s := range ins {
		reaches[i] = s.reach
	}
	out.reach = fr.defAlways(sBool, or(reaches...), "reach")
	// heaps
	hnames := map[string]bool{}
	for _, s := range ins {
		for h := range s.heaps {
			hnames[h] = true
		}
	}
	hs := make([]string, 0, len(hnames))
	for h := range hnames {
		hs = append(hs, h)
	}
	sort.Strings(hs)
	for _, h := range hs {
		vals := make([]string, len(ins))
		same := true
		for i, s := range ins {
			vals[i] = fr.heapCur(s, h)
			if vals[i] != vals[0] {
				same = false
			}
		}
		if same {
			out.heaps[h] = vals[0]
			continue
		}
		out.heaps[h] = fr.defAlways(fr.w.heapSorts[h], iteChain(reaches, vals), h)
	}
	// cells
	keys := map[cellKey]bool{}
	for _, s := range ins {
		for k := range s.cells {
			keys[k] = true
		}
	}
	for k := range keys {
		var vals []Val
		var rs []string
		ghostCounter := false
		if name, isStr := k.v.(string); isStr && k.frame == 0 && (strings.HasPrefix(name, "calls:") || name == "sends") {
			ghostCounter = true
		}
		for i, s := range ins {
			if v, ok := s.cells[k]; ok {
				vals = append(vals, v)
				rs = append(rs, reaches[i])
			} else if ghostCounter {
				vals = append(vals, Val{T: "0", S: sInt})
				rs = append(rs, reaches[i])
			}
		}
		same := true
		for _, v := range vals {
			if v.T != vals[0].T {
				same = false
			}
		}
		if same {
			v := vals[0]
			for _, o := range vals[1:] {
				if !o.FreshArr {
					v.FreshArr = false
				}
				if o.Clo != v.Clo {
					v.Clo = nil
				}
				if o.Prov != v.Prov {
					v.Prov = nil
				}
			}
			out.cells[k] = v
			continue
		}
		ts := make([]string, len(vals))
		for i, v := range vals {
			ts[i] = v.T
		}
		allFresh := true
		for _, v := range vals {
			if !v.FreshArr {
				allFresh = false
			}
		}
		out.cells[k] = Val{T: fr.defAlways(vals[0].S, iteChain(rs, ts), "m"), S: vals[0].S, FreshArr: allFresh}
	}
	// defers: take the longest common prefix; all must agree
	out.defers = append([]*deferRec{}, ins[0].defers...)
	for _, s := range ins[1:] {
		if len(s.defers) != len(out.defers) {
			if len(s.defers) < len(out.defers) {
				// conditional defer: keep the longer list (over-approximation flagged)
				fr.errorf("outside subset: conditional defer in %s", fr.fnName())
			} else {
				out.defers = append([]*deferRec{}, s.defers...)
				fr.errorf("outside subset: conditional defer in %s", fr.fnName())
			}
		}
	}
	return out
}

func iteChain(conds, vals []string) string {
	// ite(c0, v0, ite(c1, v1, ... v_{n-1}))
	out := vals[len(vals)-1]
	for i := len(vals) - 2; i >= 0; i-- {
		out = ite(conds[i], vals[i], out)
	}
	return out
}

// loopFrameCheck: a write inside a weakly framed loop must hit an object this function allocated, unless its
// address is one of the loop-invariant addresses the frame excludes.
func (fr *FuncRun) loopFrameCheck(st *State, h, addr string) {
	for f := fr.curFrame; f != nil; f = f.parent {
		for _, wl := range f.weakLoops {
			if f.curBlk == nil || !wl.body[f.curBlk] || !wl.heaps[h] {
				continue
			}
			if fr.invariant(addr, wl.marker) {
				continue
			}
			cond := "false"
			if addr != "?" && !hasBound(addr) {
				cond = "(> (fa_root " + addr + ") AllocBase)"
			}
			fr.assertOb(st, "loop-frame", h, cond, fr.curPos, "a write inside the loop to "+h+" hits an object allocated by this function (the loop's automatic frame keeps entry-state objects unchanged)")
			return
		}
	}
}

func (fr *FuncRun) noteDef(name, expr string) {
	if fr.defTerm == nil {
		fr.defTerm = map[string]string{}
	}
	fr.defTerm[name] = expr
}

var nameRe = regexp.MustCompile(`[A-Za-z][A-Za-z0-9_!.$]*_(\d+)\b`)

// invariant: the term denotes the same value in every iteration of a loop entered at allocation/naming mark
// `marker`: every name in it was introduced before the loop, or abbreviates (def) a term that is invariant.
func (fr *FuncRun) invariant(term string, marker int) bool {
	return fr.invariantDepth(term, marker, 0)
}

func (fr *FuncRun) invariantDepth(term string, marker int, depth int) bool {
	if term == "?" || term == "" || hasBound(term) || depth > 16 {
		return false
	}
	for _, m := range nameRe.FindAllStringSubmatch(term, -1) {
		n, _ := strconv.Atoi(m[1])
		if n <= marker {
			continue
		}
		ex, ok := fr.defTerm[m[0]]
		if !ok || !fr.invariantDepth(ex, marker, depth+1) {
			return false
		}
	}
	return true
}

// expandDefs rewrites an invariant term so that it only mentions names introduced up to `marker`: abbreviations
// introduced later (during a scouting pass that is rolled back) are replaced by the terms they stand for.
func (fr *FuncRun) expandDefs(term string, marker int) string {
	for depth := 0; depth < 16; depth++ {
		changed := false
		term = nameRe.ReplaceAllStringFunc(term, func(name string) string {
			m := nameRe.FindStringSubmatch(name)
			n, _ := strconv.Atoi(m[1])
			if n <= marker {
				return name
			}
			if ex, ok := fr.defTerm[name]; ok {
				changed = true
				return ex
			}
			return name
		})
		if !changed {
			break
		}
	}
	return term
}

// unionWS: union of two immutable write sets (nil = empty); returns one of the arguments when possible.
func unionWS(a, b *WriteSet) *WriteSet {
	if b == nil || a == b {
		return a
	}
	if a == nil {
		return b
	}
	n := newWriteSet()
	for _, w := range []*WriteSet{a, b} {
		for h := range w.heaps {
			n.heaps[h] = true
		}
		for h := range w.oldHeaps {
			n.oldHeaps[h] = true
		}
		for c := range w.cells {
			n.cells[c] = true
		}
	}
	return n
}
