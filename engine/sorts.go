package main

// Go type -> SMT sort mapping, datatype declarations, zero values, heap names.

import (
	"fmt"
	"go/types"
	"sort"
	"strings"
)

const (
	sInt   = "Int"
	sBool  = "Bool"
	sReal  = "Real"
	sSlice = "Slice"
	sIface = "Iface"
)

// World holds the global (per-query-set) declarations: sorts, heaps, functions.
type World struct {
	structIDs   map[string]int // canonical struct key -> id
	structDecl  []string       // datatype declarations in dependency order
	structInfo  map[int]*structInfo
	typeIDs     map[string]int // dynamic type ids for interfaces
	typeByID    map[int]types.Type
	funDecls    map[string]string // name -> declaration line
	funOrder    []string
	strLits     map[string]int
	sortCache   map[types.Type]string
	heapSorts   map[string]string // heap name -> sort
	axioms      []string
	fieldOfHeap map[string]fieldRef // field heaps back to their (struct type, field index)
	boxDeclared map[string]bool
	heapTypes   map[string]heapTypeInfo
	heapElem    map[string]heapElemInfo
	// heapMake re-creates a typed heap (with the sorts of the receiving world) in another world
	heapMake map[string]func(*World) string
}

// heapElemInfo records the Go type stored in a heap and how many index levels precede it.
type heapElemInfo struct {
	t      types.Type
	levels int    // 1: (Array Int T); 2: (Array Int (Array K T))
	key    string // sort of the second-level index
}

type heapTypeInfo struct {
	kind string // elem, cell
	t    types.Type
}

type structInfo struct {
	id     int
	name   string // sort name
	st     *types.Struct
	fields []string // field sorts
	tname  string   // readable type name
}

func NewWorld() *World {
	return &World{
		structIDs:   map[string]int{},
		structInfo:  map[int]*structInfo{},
		typeIDs:     map[string]int{},
		typeByID:    map[int]types.Type{},
		funDecls:    map[string]string{},
		strLits:     map[string]int{},
		sortCache:   map[types.Type]string{},
		heapSorts:   map[string]string{},
		boxDeclared: map[string]bool{},
		heapTypes:   map[string]heapTypeInfo{},
		heapElem:    map[string]heapElemInfo{},
		heapMake:    map[string]func(*World) string{},
	}
}

func sanitize(s string) string {
	var b strings.Builder
	for _, r := range s {
		switch {
		case r >= 'a' && r <= 'z', r >= 'A' && r <= 'Z', r >= '0' && r <= '9', r == '_':
			b.WriteRune(r)
		case r == '.', r == '/':
			b.WriteRune('_')
		case r == '*':
			b.WriteString("P")
		case r == '[':
			b.WriteString("L")
		case r == ']':
			b.WriteString("J")
		default:
			b.WriteString("_")
		}
	}
	return b.String()
}

// shortTypeName gives a compact readable canonical name for a type.
func shortTypeName(t types.Type) string {
	s := types.TypeString(t, func(p *types.Package) string {
		path := p.Path()
		path = strings.TrimPrefix(path, "github.com/attestantio/")
		return path
	})
	return sanitize(s)
}

func (w *World) declFun(name, decl string) {
	if _, ok := w.funDecls[name]; ok {
		return
	}
	w.funDecls[name] = decl
	w.funOrder = append(w.funOrder, name)
}

func isUnsigned(t types.Type) (bits int, ok bool) {
	b, isB := t.Underlying().(*types.Basic)
	if !isB {
		return 0, false
	}
	switch b.Kind() {
	case types.Uint8:
		return 8, true
	case types.Uint16:
		return 16, true
	case types.Uint32:
		return 32, true
	case types.Uint64, types.Uint, types.Uintptr:
		return 64, true
	}
	return 0, false
}

func isSigned(t types.Type) (bits int, ok bool) {
	b, isB := t.Underlying().(*types.Basic)
	if !isB {
		return 0, false
	}
	switch b.Kind() {
	case types.Int8:
		return 8, true
	case types.Int16:
		return 16, true
	case types.Int32:
		return 32, true
	case types.Int64, types.Int, types.UntypedInt, types.UntypedRune:
		return 64, true
	}
	return 0, false
}

func pow2(n int) string {
	switch n {
	case 8:
		return "256"
	case 16:
		return "65536"
	case 32:
		return "4294967296"
	case 64:
		return "18446744073709551616"
	}
	panic("pow2")
}

// SortOf maps a Go type to an SMT sort name, declaring datatypes as needed.
func (w *World) SortOf(t types.Type) string {
	if s, ok := w.sortCache[t]; ok {
		return s
	}
	s := w.sortOf(t)
	w.sortCache[t] = s
	return s
}

func (w *World) sortOf(t types.Type) string {
	switch u := t.Underlying().(type) {
	case *types.Basic:
		switch {
		case u.Info()&types.IsBoolean != 0:
			return sBool
		case u.Info()&types.IsInteger != 0:
			return sInt
		case u.Info()&types.IsFloat != 0:
			return sReal
		case u.Info()&types.IsString != 0:
			return sInt
		case u.Kind() == types.UnsafePointer:
			return sInt
		case u.Kind() == types.UntypedNil:
			return sInt
		}
		return sInt
	case *types.Pointer, *types.Map, *types.Chan, *types.Signature:
		return sInt
	case *types.Slice:
		return sSlice
	case *types.Interface:
		return sIface
	case *types.Array:
		return "(Array Int " + w.SortOf(u.Elem()) + ")"
	case *types.Struct:
		return w.structSort(t, u)
	case *types.Tuple:
		return "TUPLE"
	case *types.TypeParam:
		return sInt
	}
	return sInt
}

func (w *World) structKey(t types.Type, st *types.Struct) string {
	if n, ok := t.(*types.Named); ok {
		return types.TypeString(n, nil)
	}
	if a, ok := t.(*types.Alias); ok {
		return w.structKey(types.Unalias(a), st)
	}
	return st.String()
}

func (w *World) structSort(t types.Type, st *types.Struct) string {
	key := w.structKey(t, st)
	if id, ok := w.structIDs[key]; ok {
		return w.structInfo[id].name
	}
	id := len(w.structIDs) + 1
	w.structIDs[key] = id
	info := &structInfo{id: id, st: st, tname: shortTypeName(t)}
	info.name = fmt.Sprintf("S%d_%s", id, trunc(info.tname, 40))
	w.structInfo[id] = info
	// compute field sorts first (declares dependencies first).
	for i := 0; i < st.NumFields(); i++ {
		info.fields = append(info.fields, w.SortOf(st.Field(i).Type()))
	}
	var b strings.Builder
	fmt.Fprintf(&b, "(declare-datatypes ((%s 0)) (((mk_%s", info.name, info.name)
	for i, fs := range info.fields {
		fmt.Fprintf(&b, " (f%d_%s %s)", i, info.name, fs)
	}
	b.WriteString("))))")
	w.structDecl = append(w.structDecl, b.String())
	return info.name
}

func trunc(s string, n int) string {
	if len(s) > n {
		return s[len(s)-n:]
	}
	return s
}

func (w *World) structInfoOf(t types.Type) *structInfo {
	st, ok := t.Underlying().(*types.Struct)
	if !ok {
		return nil
	}
	w.SortOf(t)
	return w.structInfo[w.structIDs[w.structKey(t, st)]]
}

// TypeID returns the dynamic type id (>0) for a concrete type held in an interface.
func (w *World) TypeID(t types.Type) int {
	key := types.TypeString(t, nil)
	if id, ok := w.typeIDs[key]; ok {
		return id
	}
	id := len(w.typeIDs) + 1
	w.typeIDs[key] = id
	w.typeByID[id] = t
	return id
}

func (w *World) StrLit(s string) string {
	if s == "" {
		return "0"
	}
	if id, ok := w.strLits[s]; ok {
		return fmt.Sprintf("(- %d)", id)
	}
	id := len(w.strLits) + 1
	w.strLits[s] = id
	return fmt.Sprintf("(- %d)", id)
}

// Zero returns the zero value term of the type.
func (w *World) Zero(t types.Type) string {
	switch u := t.Underlying().(type) {
	case *types.Basic:
		switch {
		case u.Info()&types.IsBoolean != 0:
			return "false"
		case u.Info()&types.IsFloat != 0:
			return "0.0"
		}
		return "0"
	case *types.Slice:
		return "(mk-slice 0 0 0 0)"
	case *types.Interface:
		return "(mk-iface 0 0)"
	case *types.Array:
		return fmt.Sprintf("((as const %s) %s)", w.SortOf(t), w.Zero(u.Elem()))
	case *types.Struct:
		info := w.structInfoOf(t)
		if u.NumFields() == 0 {
			return "mk_" + info.name
		}
		var b strings.Builder
		b.WriteString("(mk_" + info.name)
		for i := 0; i < u.NumFields(); i++ {
			b.WriteString(" " + w.Zero(u.Field(i).Type()))
		}
		b.WriteString(")")
		return b.String()
	}
	return "0"
}

// Heap naming ---------------------------------------------------------------

func (w *World) heap(name, sort string) string {
	if _, ok := w.heapSorts[name]; !ok {
		w.heapSorts[name] = sort
	}
	return name
}

// FieldHeap: per (struct type, field) heap for non-struct fields.
func (w *World) FieldHeap(structT types.Type, idx int) string {
	info := w.structInfoOf(structT)
	f := info.st.Field(idx)
	name := fmt.Sprintf("H_%s_%s", info.tname, f.Name())
	w.heapElem[name] = heapElemInfo{t: f.Type(), levels: 1}
	if w.fieldOfHeap == nil {
		w.fieldOfHeap = map[string]fieldRef{}
	}
	w.fieldOfHeap[name] = fieldRef{structT, idx}
	w.heapMake[name] = func(o *World) string { return o.FieldHeap(structT, idx) }
	return w.heap(name, "(Array Int "+w.SortOf(f.Type())+")")
}

// CellHeap: per pointee type heap for pointers to non-struct values.
func (w *World) CellHeap(t types.Type) string {
	name := "Cell_" + shortTypeName(t)
	w.heapTypes[name] = heapTypeInfo{"cell", t}
	w.heapElem[name] = heapElemInfo{t: t, levels: 1}
	w.heapMake[name] = func(o *World) string { return o.CellHeap(t) }
	return w.heap(name, "(Array Int "+w.SortOf(t)+")")
}

// ElemHeap: slice backing stores per element type.
func (w *World) ElemHeap(elem types.Type) string {
	name := "Elem_" + shortTypeName(elem)
	w.heapTypes[name] = heapTypeInfo{"elem", elem}
	w.heapElem[name] = heapElemInfo{t: elem, levels: 2, key: "Int"}
	w.heapMake[name] = func(o *World) string { return o.ElemHeap(elem) }
	return w.heap(name, "(Array Int (Array Int "+w.SortOf(elem)+"))")
}

func (w *World) mapKey(m *types.Map) string {
	return shortTypeName(m.Key()) + "__" + shortTypeName(m.Elem())
}

func (w *World) MapDomHeap(m *types.Map) string {
	w.heapMake["MapDom_"+w.mapKey(m)] = func(o *World) string { return o.MapDomHeap(m) }
	return w.heap("MapDom_"+w.mapKey(m), "(Array Int (Array "+w.SortOf(m.Key())+" Bool))")
}
func (w *World) MapValHeap(m *types.Map) string {
	w.heapMake["MapVal_"+w.mapKey(m)] = func(o *World) string { return o.MapValHeap(m) }
	w.heapElem["MapVal_"+w.mapKey(m)] = heapElemInfo{t: m.Elem(), levels: 2, key: w.SortOf(m.Key())}
	return w.heap("MapVal_"+w.mapKey(m), "(Array Int (Array "+w.SortOf(m.Key())+" "+w.SortOf(m.Elem())+"))")
}
func (w *World) MapLenHeap() string { return w.heap("MapLen", "(Array Int Int)") }

// Ghost heaps.
func (w *World) HeldHeap() string { return w.heap("Held", "(Array Int Int)") }

// faddr function for the address of a struct-typed (inline) field.
func (w *World) FAddr(structT types.Type, idx int) string {
	info := w.structInfoOf(structT)
	name := fmt.Sprintf("faddr_%s_%d", info.name, idx)
	if _, ok := w.funDecls[name]; !ok {
		// the address of an inline struct field: injective, tagged, negative, as old as its enclosing object
		w.axioms = append(w.axioms, fmt.Sprintf("(assert (forall ((x Int)) (! (and (= (fa_tag (%s x)) %d) (= (fa_base (%s x)) x) (< (%s x) 0) (= (fa_root (%s x)) (fa_root x))) :pattern ((%s x)))))",
			name, w.faTag(structT, idx), name, name, name, name))
	}
	w.declFun(name, fmt.Sprintf("(declare-fun %s (Int) Int)", name))
	return name
}

func (w *World) faTag(structT types.Type, idx int) int {
	info := w.structInfoOf(structT)
	return info.id*1000 + idx + 1
}

// HeapWF gives the well-formedness axioms of one version of a heap: stored references were allocated
// no later than `top`, stored unsigned integers are within their machine range.
func (w *World) HeapWF(h, version, top string) []string {
	info, ok := w.heapElem[h]
	if !ok {
		return nil
	}
	// A reference stored in object a was allocated no later than `top` (the allocation mark when this version of the
	// heap was created) or, for an object that did not exist then, no later than born(a): the mark at the end of the
	// call that allocated it (see bumpAllocTop). So no version says anything about the contents of objects allocated
	// later by a callee - its postcondition describes them - beyond that they refer to what existed by then.
	bound := func(x string) string {
		return "(or (<= " + x + " " + top + ") (<= " + x + " (born (fa_root a))))"
	}
	var acc func(x string) string
	switch info.t.Underlying().(type) {
	case *types.Map, *types.Chan, *types.Pointer:
		// (addresses of inline struct fields are negative and satisfy this trivially)
		acc = func(x string) string { return bound("(fa_root " + x + ")") }
	case *types.Slice:
		acc = func(x string) string {
			return "(and (<= 0 (s-arr " + x + ")) " + bound("(fa_root (s-arr "+x+"))") + ")"
		}
	default:
		if bits, ok := isUnsigned(info.t); ok {
			acc = func(x string) string { return "(and (<= 0 " + x + ") (< " + x + " " + pow2(bits) + "))" }
		} else {
			return nil
		}
	}
	if info.levels == 1 {
		return []string{fmt.Sprintf("(assert (forall ((a Int)) (! %s :pattern ((select %s a)))))", acc("(select "+version+" a)"), version)}
	}
	return []string{fmt.Sprintf("(assert (forall ((a Int) (k %s)) (! %s :pattern ((select (select %s a) k)))))", info.key, acc("(select (select "+version+" a) k)"), version)}
}

// At reads element i of a slice view (inner array, offset): a declared function with a defining
// axiom, so that quantified contract clauses over slice elements get clean E-matching triggers
// (no arithmetic in the trigger).
func (w *World) At(elem types.Type, inner, off, i string) string {
	srt := w.SortOf(elem)
	name := "at_" + sanitize(srt)
	if _, ok := w.funDecls[name]; !ok {
		w.declFun(name, fmt.Sprintf("(declare-fun %s ((Array Int %s) Int Int) %s)", name, srt, srt))
		w.axioms = append(w.axioms, fmt.Sprintf("(assert (forall ((a (Array Int %s)) (o Int) (i Int)) (! (= (%s a o i) (select a (+ o i))) :pattern ((%s a o i)))))", srt, name, name))
	}
	return "(" + name + " " + inner + " " + off + " " + i + ")"
}

// Box functions for non-pointer values held in interfaces.
func (w *World) Box(t types.Type) (box, unbox string) {
	n := shortTypeName(t)
	box, unbox = "box_"+n, "unbox_"+n
	if !w.boxDeclared[n] {
		w.boxDeclared[n] = true
		s := w.SortOf(t)
		w.declFun(box, fmt.Sprintf("(declare-fun %s (%s) Int)", box, s))
		w.declFun(unbox, fmt.Sprintf("(declare-fun %s (Int) %s)", unbox, s))
		// boxing is injective (needed for boxed terms under binders, where no ground fact can be emitted)
		w.axioms = append(w.axioms, fmt.Sprintf("(assert (forall ((x %s)) (! (= (%s (%s x)) x) :pattern ((%s x)))))", s, unbox, box, box))
	}
	return
}

// Prelude emits all global declarations.
func (w *World) Prelude() string {
	var b strings.Builder
	b.WriteString("(declare-datatypes ((Slice 0)) (((mk-slice (s-arr Int) (s-off Int) (s-len Int) (s-cap Int)))))\n")
	b.WriteString("(declare-datatypes ((Iface 0)) (((mk-iface (i-typ Int) (i-val Int)))))\n")
	for _, d := range w.structDecl {
		b.WriteString(d + "\n")
	}
	b.WriteString("(declare-fun AllocBase () Int)\n(assert (> AllocBase 0))\n")
	b.WriteString("(declare-fun fa_tag (Int) Int)\n(declare-fun fa_base (Int) Int)\n(declare-fun fa_root (Int) Int)\n")
	b.WriteString("(define-fun oldaddr ((a Int)) Bool (and (not (= a 0)) (<= (fa_root a) AllocBase)))\n")
	// born(x): the allocation mark by which object x and everything stored in it at its creation existed
	b.WriteString("(declare-fun born (Int) Int)\n(assert (forall ((x Int)) (! (=> (<= x AllocBase) (<= (born x) AllocBase)) :pattern ((born x)))))\n")
	b.WriteString("(declare-fun strlen (Int) Int)\n")
	b.WriteString("(declare-fun strcat (Int Int) Int)\n")
	// lengths of the string literals of this function (literal ids are negative, "" is 0)
	b.WriteString("(assert (= (strlen 0) 0))\n")
	lits := make([]string, 0, len(w.strLits))
	for l := range w.strLits {
		lits = append(lits, l)
	}
	sort.Slice(lits, func(i, j int) bool { return w.strLits[lits[i]] < w.strLits[lits[j]] })
	for _, l := range lits {
		fmt.Fprintf(&b, "(assert (= (strlen (- %d)) %d))\n", w.strLits[l], len(l))
	}
	names := append([]string{}, w.funOrder...)
	for _, n := range names {
		b.WriteString(w.funDecls[n] + "\n")
	}
	hs := make([]string, 0, len(w.heapSorts))
	for h := range w.heapSorts {
		hs = append(hs, h)
	}
	sort.Strings(hs)
	for _, h := range hs {
		fmt.Fprintf(&b, "(declare-fun %s_0 () %s)\n", h, w.heapSorts[h])
	}
	// well-formedness of the entry heap
	for _, h := range hs {
		for _, ax := range w.HeapWF(h, h+"_0", "AllocBase") {
			b.WriteString(ax + "\n")
		}
	}
	for _, a := range w.axioms {
		b.WriteString(a + "\n")
	}
	return b.String()
}

type fieldRef struct {
	t   types.Type
	idx int
}
