package main

import (
	"fmt"
	"go/constant"
	"go/token"
	"go/types"
	"os"
	"sort"
	"strings"

	"golang.org/x/tools/go/ssa"
)

const maxInlineDepth = 4

type edgeIn struct {
	from *ssa.BasicBlock
	st   *State
}

type retRec struct {
	st      *State
	results []Val
}

// isBackEdge: an edge from b to h where h dominates b.
func isBackEdge(b, h *ssa.BasicBlock) bool { return h.Dominates(b) }

// rpo computes reverse postorder ignoring back edges.
func rpo(fn *ssa.Function) []*ssa.BasicBlock {
	seen := map[*ssa.BasicBlock]bool{}
	var post []*ssa.BasicBlock
	var visit func(b *ssa.BasicBlock)
	visit = func(b *ssa.BasicBlock) {
		seen[b] = true
		for _, s := range b.Succs {
			if isBackEdge(b, s) || seen[s] {
				continue
			}
			visit(s)
		}
		post = append(post, b)
	}
	if len(fn.Blocks) > 0 {
		visit(fn.Blocks[0])
	}
	for i, j := 0, len(post)-1; i < j; i, j = i+1, j-1 {
		post[i], post[j] = post[j], post[i]
	}
	return post
}

// loopHeads returns the loop heads of fn in block order with their natural loop bodies.
func loopHeads(fn *ssa.Function) ([]*ssa.BasicBlock, map[*ssa.BasicBlock]map[*ssa.BasicBlock]bool) {
	bodies := map[*ssa.BasicBlock]map[*ssa.BasicBlock]bool{}
	var heads []*ssa.BasicBlock
	for _, b := range fn.Blocks {
		for _, s := range b.Succs {
			if isBackEdge(b, s) {
				body, ok := bodies[s]
				if !ok {
					body = map[*ssa.BasicBlock]bool{s: true}
					bodies[s] = body
				}
				// natural loop: all blocks that reach b without passing through s
				var stack []*ssa.BasicBlock
				if !body[b] {
					body[b] = true
					stack = append(stack, b)
				}
				for len(stack) > 0 {
					x := stack[len(stack)-1]
					stack = stack[:len(stack)-1]
					for _, p := range x.Preds {
						if !body[p] {
							body[p] = true
							stack = append(stack, p)
						}
					}
				}
			}
		}
	}
	for _, b := range fn.Blocks {
		if _, ok := bodies[b]; ok {
			heads = append(heads, b)
		}
	}
	return heads, bodies
}

// returnsFromInside: the returning block is reached from inside the loop with head h without
// going through the loop's normal exit (the successor of the head that lies outside the body).
func returnsFromInside(h *ssa.BasicBlock, body map[*ssa.BasicBlock]bool, ret *ssa.BasicBlock) bool {
	if !h.Dominates(ret) || h == ret {
		return false
	}
	if body[ret] {
		return true
	}
	for _, s := range h.Succs {
		if !body[s] && s.Dominates(ret) {
			return false
		}
	}
	return true
}

// newFrame creates an activation.
func (fr *FuncRun) newFrame(fn *ssa.Function, parent *Frame) *Frame {
	fr.nframes++
	f := &Frame{id: fr.nframes, fn: fn, regs: map[ssa.Value]Val{}, bind: map[*ssa.FreeVar]Addr{}, bindVal: map[*ssa.FreeVar]Val{},
		iters: map[ssa.Value]*iterInfo{}, callOrd: map[string]int{}, static: map[*ssa.Alloc]bool{}, parent: parent}
	if parent != nil {
		f.depth = parent.depth + 1
	}
	if fr.eng != nil && fr.scout == 0 {
		if fr.eng.seenLocals == nil {
			fr.eng.seenLocals = map[string][]localSig{}
		}
		if _, ok := fr.eng.seenLocals[funcDisplayName(fn)]; !ok {
			fr.eng.seenLocals[funcDisplayName(fn)] = localsOf(fn)
		}
	}
	return f
}

// isStaticCell decides whether an Alloc can be kept as a named variable.
func isStaticCell(a *ssa.Alloc) bool {
	elem := a.Type().(*types.Pointer).Elem()
	if isStruct(elem) {
		return false
	}
	refs := a.Referrers()
	if refs == nil {
		return true
	}
	for _, r := range *refs {
		switch x := r.(type) {
		case *ssa.Store:
			if x.Val == ssa.Value(a) {
				return false
			}
		case *ssa.UnOp:
			if x.Op != token.MUL {
				return false
			}
		case *ssa.IndexAddr, *ssa.DebugRef:
		case *ssa.MakeClosure:
		case *ssa.Slice:
			// slicing an array variable: treat array as escaping
			return false
		default:
			return false
		}
	}
	return true
}

func isStaticFreeVar(fv *ssa.FreeVar) bool {
	elem := fv.Type().(*types.Pointer).Elem()
	if isStruct(elem) {
		return false
	}
	refs := fv.Referrers()
	if refs == nil {
		return true
	}
	for _, r := range *refs {
		switch x := r.(type) {
		case *ssa.Store:
			if x.Val == ssa.Value(fv) {
				return false
			}
		case *ssa.UnOp:
			if x.Op != token.MUL {
				return false
			}
		case *ssa.IndexAddr, *ssa.DebugRef, *ssa.MakeClosure:
		default:
			return false
		}
	}
	return true
}

type pendingBackEdge struct {
	f    *Frame
	head *ssa.BasicBlock
	st   *State
}

// flushBackEdges checks the loop invariants on the join of all back-edge states of each loop.
func (fr *FuncRun) flushBackEdges() {
	pend := fr.pendingBack
	fr.pendingBack = nil
	type key struct {
		f    *Frame
		head *ssa.BasicBlock
	}
	groups := map[key][]*State{}
	var order []key
	for _, p := range pend {
		k := key{p.f, p.head}
		if _, ok := groups[k]; !ok {
			order = append(order, k)
		}
		groups[k] = append(groups[k], p.st)
	}
	for _, k := range order {
		merged := fr.merge(groups[k])
		fr.checkInvariants(k.f, k.head, merged, "inv-preserved")
		for i, al := range k.f.autoLock[k.head] {
			hh := fr.w.HeldHeap()
			fr.assertObNoAssume(merged, "inv-preserved", lockLabel(k.f, fr.loopOrdinal(k.f, k.head), i+1), eq(sel(fr.heapCur(merged, hh), al.addr), al.preVal), k.head.Instrs[0].Pos(), "every iteration leaves the locks it takes as they were at loop entry")
		}
	}
}

// execFunction runs the body of f.fn from state st; returns the merged return state and results.
func (fr *FuncRun) execFunction(f *Frame, st *State) (*State, []Val) {
	fn := f.fn
	if len(fn.Blocks) == 0 {
		fr.errorf("function without body: %s", fn.String())
		return st, nil
	}
	order := rpo(fn)
	_, bodies := loopHeads(fn)
	rets := fr.runRegion(f, order, nil, fn.Blocks[0], st, bodies)
	if len(rets) == 0 {
		// no normal return (infinite loop / always panics)
		dead := st.clone()
		dead.reach = "false"
		var res []Val
		for i := 0; i < fn.Signature.Results().Len(); i++ {
			t := fn.Signature.Results().At(i).Type()
			res = append(res, Val{T: fr.w.Zero(t), S: fr.w.SortOf(t)})
		}
		return dead, res
	}
	if len(rets) == 1 {
		return rets[0].st, rets[0].results
	}
	states := make([]*State, len(rets))
	for i, r := range rets {
		states[i] = r.st
	}
	out := fr.merge(states)
	nres := len(rets[0].results)
	results := make([]Val, nres)
	reaches := make([]string, len(rets))
	for i, r := range rets {
		reaches[i] = r.st.reach
	}
	for j := 0; j < nres; j++ {
		vals := make([]string, len(rets))
		same := true
		for i, r := range rets {
			vals[i] = r.results[j].T
			if vals[i] != vals[0] {
				same = false
			}
		}
		if same {
			results[j] = rets[0].results[j]
		} else {
			results[j] = Val{T: fr.defAlways(rets[0].results[j].S, iteChain(reaches, vals), "ret"), S: rets[0].results[j].S}
		}
	}
	return out, results
}

// runRegion executes the blocks (given in RPO) restricted to `within` (nil = all),
// starting at entry with state st. Returns the return records.
func (fr *FuncRun) runRegion(f *Frame, order []*ssa.BasicBlock, within map[*ssa.BasicBlock]bool, entry *ssa.BasicBlock, st *State, bodies map[*ssa.BasicBlock]map[*ssa.BasicBlock]bool) []retRec {
	incoming := map[*ssa.BasicBlock][]edgeIn{}
	var rets []retRec
	for _, blk := range order {
		if within != nil && !within[blk] {
			continue
		}
		var cur *State
		if blk == entry {
			cur = st.clone()
		} else {
			ins := incoming[blk]
			if len(ins) == 0 {
				continue
			}
			states := make([]*State, len(ins))
			for i, e := range ins {
				states[i] = e.st
			}
			cur = fr.merge(states)
		}
		// loop head?
		if body, ok := bodies[blk]; ok && !(within != nil && blk == entry && fr.scoutingHead == blk) {
			fr.enterLoop(f, blk, body, cur, order, bodies)
		}
		// phis
		idx := 0
		for ; idx < len(blk.Instrs); idx++ {
			phi, ok := blk.Instrs[idx].(*ssa.Phi)
			if !ok {
				break
			}
			fr.execPhi(f, blk, phi, incoming[blk], cur)
		}
		alive := true
		for ; idx < len(blk.Instrs) && alive; idx++ {
			ins := blk.Instrs[idx]
			switch x := ins.(type) {
			case *ssa.If:
				c := fr.val(f, cur, x.Cond)
				ct := fr.defAlways(sBool, c.T, "c")
				fr.pushEdge(f, incoming, blk, blk.Succs[0], cur, ct, within, bodies)
				fr.pushEdge(f, incoming, blk, blk.Succs[1], cur, not(ct), within, bodies)
				alive = false
			case *ssa.Jump:
				fr.pushEdge(f, incoming, blk, blk.Succs[0], cur, "true", within, bodies)
				alive = false
			case *ssa.Return:
				var res []Val
				for _, r := range x.Results {
					res = append(res, fr.val(f, cur, r))
				}
				if f.top {
					heads, _ := loopHeads(f.fn)
					for i, h := range heads {
						v := "false"
						if returnsFromInside(h, bodies[h], blk) {
							v = "true"
						}
						cur.cells[cellKey{0, fmt.Sprintf("inloop:%d", i+1)}] = Val{T: v, S: sBool}
					}
				}
				rets = append(rets, retRec{st: cur, results: res})
				alive = false
			case *ssa.Panic:
				if mi, ok := x.X.(*ssa.MakeInterface); ok {
					if cst, ok := mi.X.(*ssa.Const); ok && cst.Value != nil && strings.Contains(cst.Value.ExactString(), "blocking select matched no case") {
						// go/ssa's fall-through of a blocking select: the select index is one of its cases
						alive = false
						continue
					}
				}
				if f.top || true {
					fr.assertOb(cur, "explicit-panic", "panic", "false", x.Pos(), "explicit panic reachable")
				}
				alive = false
			default:
				if os.Getenv("GOVC_DEBUG_WRITES") != "" {
					fr.curInstr = fmt.Sprintf("%s: %s", f.fn.Name(), ins.String())
				}
				fr.curFrame, f.curBlk, fr.curPos = f, blk, ins.Pos()
				fr.execInstr(f, cur, ins)
				fr.curFrame, f.curBlk = f, blk
			}
		}
	}
	return rets
}

func (fr *FuncRun) pushEdge(f *Frame, incoming map[*ssa.BasicBlock][]edgeIn, from, to *ssa.BasicBlock, cur *State, cond string, within map[*ssa.BasicBlock]bool, bodies map[*ssa.BasicBlock]map[*ssa.BasicBlock]bool) {
	ns := cur.clone()
	if cond != "true" {
		if cur.reach == "true" {
			ns.reach = cond
		} else {
			ns.reach = fr.defAlways(sBool, and(cur.reach, cond), "reach")
		}
	}
	if isBackEdge(from, to) {
		// back edge: invariants must be preserved (checked once per loop over all back edges, see flushBackEdges)
		if fr.scout > 0 {
			if fr.scoutingHead == to {
				fr.backStates = append(fr.backStates, ns)
			}
			return
		}
		if len(fr.invariantsOf(f, to)) > 0 || len(f.autoLock[to]) > 0 {
			fr.pendingBack = append(fr.pendingBack, pendingBackEdge{f: f, head: to, st: ns})
		}
		return
	}
	if within != nil && !within[to] {
		return
	}
	incoming[to] = append(incoming[to], edgeIn{from: from, st: ns})
}

func (fr *FuncRun) execPhi(f *Frame, blk *ssa.BasicBlock, phi *ssa.Phi, ins []edgeIn, cur *State) {
	srt := fr.w.SortOf(phi.Type())
	var conds, vals []string
	used := map[int]bool{}
	for i, p := range blk.Preds {
		// find the matching incoming edge (by order for duplicates)
		for j, e := range ins {
			if e.from == p && !used[j] {
				used[j] = true
				v := fr.val(f, e.st, phi.Edges[i])
				conds = append(conds, e.st.reach)
				vals = append(vals, v.T)
				break
			}
		}
	}
	if len(vals) == 0 {
		f.regs[phi] = Val{T: fr.fresh(srt, "phi"), S: srt}
		return
	}
	f.regs[phi] = Val{T: fr.defAlways(srt, iteChain(conds, vals), "phi"), S: srt}
}

// loop handling ---------------------------------------------------------------

func (fr *FuncRun) loopOrdinal(f *Frame, head *ssa.BasicBlock) int {
	heads, _ := loopHeads(f.fn)
	for i, h := range heads {
		if h == head {
			return i + 1
		}
	}
	return 0
}

// scoutLoop executes the loop body once in scouting mode from state `from`.
func (fr *FuncRun) scoutLoop(f *Frame, head *ssa.BasicBlock, body map[*ssa.BasicBlock]bool, from *State, order []*ssa.BasicBlock, bodies map[*ssa.BasicBlock]map[*ssa.BasicBlock]bool) (*WriteSet, []*State) {
	ws := newWriteSet()
	fr.wsStack = append(fr.wsStack, ws)
	fr.scout++
	savedHead, savedBack := fr.scoutingHead, fr.backStates
	fr.scoutingHead, fr.backStates = head, nil
	savedRegs := f.regs
	f.regs = map[ssa.Value]Val{}
	for k, v := range savedRegs {
		f.regs[k] = v
	}
	savedFreshW, savedOldW := fr.freshHeapWrites, fr.oldHeapWrites
	fr.freshHeapWrites, fr.oldHeapWrites = map[string]bool{}, map[string]bool{}
	savedTop := fr.allocTop
	savedMutexes := fr.mutexes
	mk := fr.mark()
	fr.runRegion(f, order, body, head, from.clone(), bodies)
	fr.rollback(mk)
	fr.mutexes = savedMutexes
	fr.allocTop = savedTop
	fr.freshHeapWrites, fr.oldHeapWrites = savedFreshW, savedOldW
	back := fr.backStates
	f.regs = savedRegs
	fr.scoutingHead, fr.backStates = savedHead, savedBack
	fr.scout--
	fr.wsStack = fr.wsStack[:len(fr.wsStack)-1]
	return ws, back
}

func (fr *FuncRun) enterLoop(f *Frame, head *ssa.BasicBlock, body map[*ssa.BasicBlock]bool, cur *State, order []*ssa.BasicBlock, bodies map[*ssa.BasicBlock]map[*ssa.BasicBlock]bool) {
	w := fr.w
	// 1. invariants hold on entry
	fr.checkInvariants(f, head, cur, "inv-entry")
	// 2. pass A: write set; iterate the slice-freshness flags of loop-carried cells to a fixpoint
	var ws *WriteSet
	var lastBack []*State
	for iter := 0; iter < 5; iter++ {
		var back []*State
		ws, back = fr.scoutLoop(f, head, body, cur, order, bodies)
		lastBack = back
		changed := false
		for c := range ws.cells {
			v, ok := cur.cells[c]
			if !ok || !v.FreshArr {
				continue
			}
			for _, bs := range back {
				if bv, ok := bs.cells[c]; ok && !bv.FreshArr {
					v.FreshArr = false
					cur.cells[c] = v
					changed = true
					break
				}
			}
		}
		if !changed {
			break
		}
	}
	// propagate to outer write sets
	for h := range ws.heaps {
		saved := fr.curWriteFresh
		fr.curWriteFresh = !ws.oldHeaps[h]
		fr.noteHeapWrite(h)
		fr.curWriteFresh = saved
	}
	for c := range ws.cells {
		fr.noteCellWrite(c)
	}
	// only what can differ when control comes back to the head needs to be forgotten: writes on paths
	// that leave the loop (break, return) do not reach the next iteration
	carried := newWriteSet()
	for _, bs := range lastBack {
		for h := range ws.heaps {
			if fr.heapCur(bs, h) != fr.heapCur(cur, h) {
				carried.heaps[h] = true
				if ws.oldHeaps[h] {
					carried.oldHeaps[h] = true
				}
			}
		}
		for c := range ws.cells {
			bv, ok1 := bs.cells[c]
			cv, ok2 := cur.cells[c]
			if ok1 != ok2 || bv.T != cv.T {
				carried.cells[c] = true
			}
		}
	}
	ws = carried
	// goroutines started by earlier iterations run alongside the generic one
	for _, bs := range lastBack {
		cur.spawned = unionWS(cur.spawned, bs.spawned)
	}
	// 3. havoc the write set
	pre := cur.clone()
	preLines, preReach := len(fr.lines), cur.reach
	topAtEntry := fr.allocTop
	// (the objects allocated by earlier iterations lie between the mark at loop entry and the mark at the loop head)
	fr.allocTop = topAtEntry
	fr.bumpAllocTop()
	newTop := fr.allocTop
	marker := fr.nfresh
	var hs []string
	for h := range ws.heaps {
		hs = append(hs, h)
	}
	sort.Strings(hs)
	for _, h := range hs {
		cur.heaps[h] = fr.freshHeap(h)
	}
	excl := map[string][]string{} // heap -> addresses that may be written although allocated before the loop
	var cs []cellKey
	for c := range ws.cells {
		cs = append(cs, c)
	}
	sort.Slice(cs, func(i, j int) bool { return fmt.Sprint(cs[i]) < fmt.Sprint(cs[j]) })
	for _, c := range cs {
		old, ok := cur.cells[c]
		if !ok {
			continue
		}
		nv := Val{T: fr.fresh(old.S, "lv"), S: old.S, FreshArr: old.FreshArr}
		cur.cells[c] = nv
		if al, isAlloc := c.v.(*ssa.Alloc); isAlloc && al.Comment == "rangeindex" {
			// the hidden index of a range loop starts at -1 and is only ever incremented
			fr.assume(cur, "(>= "+nv.T+" (- 1))")
		}
		if al, isAlloc := c.v.(*ssa.Alloc); isAlloc && al.Comment == "rangeint.iter" {
			// go/ssa lowers `for i := range n` to: iter = 0; if 0 < n goto body; body: ...; iter++; if iter < n goto body.
			// The counter is only ever incremented from 0, and every edge into the body is guarded by iter < n.
			fr.assume(cur, "(>= "+nv.T+" 0)")
			if n := rangeIntBound(head, al); n != nil {
				fr.assume(cur, "(< "+nv.T+" "+fr.val(f, cur, n).T+")")
			}
		}
		if t := cellType(c); t != nil {
			fr.rangeAssume(cur, nv.T, t)
			if st, isSlice := t.Underlying().(*types.Slice); isSlice && nv.FreshArr {
				fr.assume(cur, fmt.Sprintf("(or (= (s-arr %s) 0) (and (= (fa_root (s-arr %s)) (s-arr %s)) (> (s-arr %s) AllocBase) (<= (s-arr %s) %s)))", nv.T, nv.T, nv.T, nv.T, nv.T, newTop))
				eh := w.ElemHeap(st.Elem())
				excl[eh] = append(excl[eh], "(s-arr "+old.T+")")
			}
		}
	}
	// 4. pass B: which addresses of each heap are written by one (generic) iteration
	savedLog, savedCellLog := fr.addrLog, fr.cellLog
	fr.addrLog, fr.cellLog = map[string][]addrWrite{}, map[cellKey][]Val{}
	fr.scoutLoop(f, head, body, cur, order, bodies)
	alog, clog := fr.addrLog, fr.cellLog
	fr.addrLog, fr.cellLog = savedLog, savedCellLog
	for c, vals := range clog {
		t := cellType(c)
		if t == nil {
			continue
		}
		if st, isSlice := t.Underlying().(*types.Slice); isSlice {
			eh := w.ElemHeap(st.Elem())
			for _, v := range vals {
				a := "(s-arr " + v.T + ")"
				if fr.invariant(a, marker) {
					excl[eh] = append(excl[eh], fr.expandDefs(a, marker))
				}
			}
		}
	}
	for _, h := range hs {
		if !strings.HasPrefix(w.heapSorts[h], "(Array Int ") {
			continue
		}
		framed := true
		weak := false
		weakOK := false // weak bound without obligations (the writes are statically known to hit fresh objects)
		var inv []string
		seen := map[string]bool{}
		for _, aw := range alog[h] {
			if fr.invariant(aw.term, marker) {
				t := fr.expandDefs(aw.term, marker)
				if !seen[t] {
					seen[t] = true
					inv = append(inv, t)
				}
				continue
			}
			if aw.fresh && (aw.root == "" || fr.invariant(aw.root, marker)) {
				// statically fresh (allocated by this function) but not known to be allocated inside the loop:
				// only the weaker frame (objects of the entry state are unchanged) is justified
				weakOK = true
				continue
			}
			if !aw.fresh {
				if aw.term == "?" || hasBound(aw.term) {
					framed = false
					break
				}
				// not statically fresh: with loop invariants at hand fall back to the weak frame and make each
				// such write prove its freshness; without invariants there is no frame for this heap
				if !fr.loopReasonsAboutFreshness(f, head) {
					framed = false
					break
				}
				weak = true
			}
		}
		if len(alog[h]) == 0 && ws.oldHeaps[h] {
			// written only inside a callee under contract (whole-heap havoc): no frame
			framed = false
		}
		if !framed || len(inv)+len(excl[h]) > 12 {
			continue
		}
		for _, a := range excl[h] {
			if !seen[a] {
				seen[a] = true
				inv = append(inv, a)
			}
		}
		a := fr.freshName("a")
		bound := topAtEntry
		if weakOK {
			bound = "AllocBase"
		}
		if weak {
			bound = "AllocBase"
			if f.weakLoops == nil {
				f.weakLoops = map[*ssa.BasicBlock]*weakLoop{}
			}
			wl := f.weakLoops[head]
			if wl == nil {
				wl = &weakLoop{body: body, heaps: map[string]bool{}}
				f.weakLoops[head] = wl
			}
			wl.heaps[h] = true
			wl.marker = marker
		}
		conds := []string{fmt.Sprintf("(and (not (= %s 0)) (<= (fa_root %s) %s))", a, a, bound)}
		for _, x := range inv {
			conds = append(conds, "(not (= "+a+" "+x+"))")
		}
		fr.assume(cur, fmt.Sprintf("(forall ((%s Int)) (! (=> %s (= (select %s %s) (select %s %s))) :pattern ((select %s %s)) :pattern ((select %s %s))))", a, and(conds...), cur.heaps[h], a, fr.heapCur(pre, h), a, cur.heaps[h], a, fr.heapCur(pre, h), a))
	}
	// 4b. lock state: a lock the body acquires and releases is, at the loop head, in the state it had on entry.
	// Assumed here for the generic iteration and checked on every back edge (inv-preserved:loopN:lockstate).
	if hh := w.HeldHeap(); cur.heaps[hh] != "" && fr.heapCur(pre, hh) != cur.heaps[hh] {
		seen := map[string]bool{}
		var autos []autoLockInv
		for _, aw := range alog[hh] {
			if !fr.invariant(aw.term, marker) {
				continue
			}
			at := fr.expandDefs(aw.term, marker)
			if seen[at] {
				continue
			}
			seen[at] = true
			preVal := fr.def(sInt, sel(fr.heapCur(pre, hh), at))
			fr.assume(cur, eq(sel(cur.heaps[hh], at), preVal))
			autos = append(autos, autoLockInv{addr: at, preVal: preVal})
		}
		if f.autoLock == nil {
			f.autoLock = map[*ssa.BasicBlock][]autoLockInv{}
		}
		f.autoLock[head] = autos
	}
	// 5. assume invariants
	fr.assumeInvariants(f, head, cur, pre)
	// 6. vacuity guard: the frame and the invariants assumed for the generic iteration must not contradict each other
	// (everything in and after the loop would be proved vacuously)
	if fr.scout == 0 {
		base := fmt.Sprintf("loop%d", fr.loopOrdinal(f, head))
		fr.names["cover:"+base]++
		name := fmt.Sprintf("%s#cover:%s", fr.fnName(), base)
		if k := fr.names["cover:"+base]; k > 1 {
			name = fmt.Sprintf("%s#%d", name, k)
		}
		fr.obls = append(fr.obls, &Obligation{Name: name, Kind: "cover", Fn: fr.fnName(), Prefix: len(fr.lines), Reach: cur.reach, Cond: "false",
			PrePrefix: preLines, PreReach: preReach, Desc: "the state assumed at the head of the loop (frame and invariants) is not contradictory (vacuity guard)"})
	}
}

type autoLockInv struct{ addr, preVal string }

func cellType(c cellKey) types.Type {
	switch x := c.v.(type) {
	case *ssa.Alloc:
		return x.Type().(*types.Pointer).Elem()
	case *ssa.FreeVar:
		return x.Type().(*types.Pointer).Elem()
	}
	return nil
}

// values -----------------------------------------------------------------------

func (fr *FuncRun) val(f *Frame, st *State, v ssa.Value) Val {
	switch x := v.(type) {
	case *ssa.Const:
		return fr.constVal(x)
	case *ssa.Function:
		return Val{T: fmt.Sprintf("%d", 1000000+fr.w.TypeID(types.NewNamed(types.NewTypeName(0, nil, "func:"+x.String(), nil), types.Typ[types.Int], nil))), S: sInt, Clo: &Closure{Fn: x}}
	case *ssa.Global:
		// address of a package-level variable
		name := "glob_" + sanitize(x.String())
		fr.w.declFun(name, fmt.Sprintf("(declare-fun %s () Int)", name))
		key := "glob:" + name
		if fr.once(key) {
			fr.emit(fmt.Sprintf("(assert (and (> %s 0) (<= (fa_root %s) AllocBase)))", name, name))
			// a package-level variable that is never written keeps its zero value
			elem := x.Type().(*types.Pointer).Elem()
			if fr.eng.neverWritten(x) {
				if isStruct(elem) {
					fr.assumed["package variable "+x.Name()+" is never written: not exploited for struct-typed variables"] = true
				} else {
					h := fr.w.CellHeap(elem)
					fr.emit(fmt.Sprintf("(assert (= (select %s_0 %s) %s))", h, name, fr.w.Zero(elem)))
					fr.constGlobals[name] = h
				}
			}
		}
		return Val{T: name, S: sInt, Addr: ObjAddr{Ref: name, Elem: x.Type().(*types.Pointer).Elem(), NonNil: true}}
	case *ssa.Builtin:
		return Val{T: "0", S: sInt}
	case *ssa.FreeVar:
		if a, ok := f.bind[x]; ok {
			r := f.bindVal[x]
			r.Addr = a
			return r
		}
		if isStaticFreeVar(x) {
			return Val{T: "0", S: sInt, Addr: CellAddr{Key: cellKey{f.id, x}}}
		}
		if r, ok := f.regs[x]; ok {
			return r
		}
	case *ssa.Parameter:
		if r, ok := f.regs[x]; ok {
			return r
		}
	}
	if r, ok := f.regs[v]; ok {
		return r
	}
	fr.errorf("use of undefined value %s (%T) in %s", v.Name(), v, f.fn.Name())
	srt := fr.w.SortOf(v.Type())
	return Val{T: fr.fresh(srt, "undef"), S: srt}
}

func (fr *FuncRun) constVal(c *ssa.Const) Val {
	t := c.Type()
	srt := fr.w.SortOf(t)
	if c.Value == nil {
		_, isSlice := t.Underlying().(*types.Slice)
		return Val{T: fr.w.Zero(t), S: srt, FreshArr: isSlice}
	}
	switch c.Value.Kind() {
	case constant.Bool:
		if constant.BoolVal(c.Value) {
			return Val{T: "true", S: sBool}
		}
		return Val{T: "false", S: sBool}
	case constant.String:
		return Val{T: fr.w.StrLit(constant.StringVal(c.Value)), S: sInt}
	case constant.Int:
		if srt == sReal {
			f, _ := constant.Float64Val(c.Value)
			return Val{T: realLit(f), S: sReal}
		}
		s := c.Value.ExactString()
		if strings.HasPrefix(s, "-") {
			s = "(- " + s[1:] + ")"
		}
		return Val{T: s, S: sInt}
	case constant.Float:
		fl, _ := constant.Float64Val(c.Value)
		if srt == sInt {
			return Val{T: fmt.Sprintf("%d", int64(fl)), S: sInt}
		}
		return Val{T: realLit(fl), S: sReal}
	}
	return Val{T: fr.fresh(srt, "const"), S: srt}
}

func realLit(f float64) string {
	s := fmt.Sprintf("%f", f)
	if strings.HasPrefix(s, "-") {
		return "(- " + s[1:] + ")"
	}
	return s
}

// valTerm gives the plain term for a value, converting static addresses.
func (fr *FuncRun) valTerm(v Val) string {
	if v.Addr != nil {
		return fr.addrTerm(v.Addr)
	}
	return v.T
}

// toAddr interprets a pointer-typed SSA value as an address.
func (fr *FuncRun) toAddr(f *Frame, st *State, v ssa.Value) Addr {
	r := fr.val(f, st, v)
	if r.Addr != nil {
		return r.Addr
	}
	pt, ok := v.Type().Underlying().(*types.Pointer)
	if !ok {
		fr.errorf("toAddr on non-pointer %s", v.Type())
		return ObjAddr{Ref: r.T, Elem: types.Typ[types.Int]}
	}
	return ObjAddr{Ref: r.T, Elem: pt.Elem()}
}

// nilCheck emits a nil-dereference obligation for address a when needed.
func (fr *FuncRun) nilCheck(f *Frame, st *State, a Addr, v ssa.Value, pos token.Pos) {
	if o, ok := a.(ObjAddr); ok && !o.Fresh && !o.NonNil {
		fr.assertOb(st, "nil", exprText(v), not(eq(o.Ref, "0")), pos, "nil pointer dereference")
	}
}

// instructions -------------------------------------------------------------------

func (fr *FuncRun) execInstr(f *Frame, st *State, ins ssa.Instruction) {
	w := fr.w
	switch x := ins.(type) {
	case *ssa.DebugRef:
	case *ssa.Alloc:
		elem := x.Type().(*types.Pointer).Elem()
		if isStaticCell(x) {
			key := cellKey{f.id, x}
			st.cells[key] = Val{T: w.Zero(elem), S: w.SortOf(elem)}
			fr.noteCellWrite(key)
			f.regs[x] = Val{T: "0", S: sInt, Addr: CellAddr{Key: key}}
			return
		}
		ref := fr.allocRef("new_" + x.Comment)
		a := ObjAddr{Ref: ref, Elem: elem, Fresh: true}
		fr.store(st, a, elem, Val{T: w.Zero(elem), S: w.SortOf(elem)})
		f.regs[x] = Val{T: ref, S: sInt, Addr: a}
	case *ssa.UnOp:
		fr.execUnOp(f, st, x)
	case *ssa.BinOp:
		f.regs[x] = fr.binop(st, x.Op, fr.val(f, st, x.X), fr.val(f, st, x.Y), x.X.Type(), x.Y.Type(), x.Type(), x, x.Pos())
	case *ssa.Store:
		a := fr.toAddr(f, st, x.Addr)
		if _, isField := x.Addr.(*ssa.FieldAddr); !isField {
			fr.nilCheck(f, st, a, x.Addr, x.Pos())
		}
		v := fr.val(f, st, x.Val)
		if v.Addr != nil {
			v = Val{T: fr.addrTerm(v.Addr), S: sInt, Addr: keepObj(v.Addr)}
		}
		fr.guardCheck(f, st, a, true, x.Addr, x.Pos())
		fr.publishCheck(f, st, a, x.Val.Type(), v)
		fr.store(st, a, x.Val.Type(), v)
	case *ssa.FieldAddr:
		base := fr.toAddr(f, st, x.X)
		fr.nilCheck(f, st, base, x.X, x.Pos())
		structT := x.X.Type().Underlying().(*types.Pointer).Elem()
		a := FieldOf{Base: base, Idx: x.Field, Struct: structT}
		f.regs[x] = Val{T: "0", S: sInt, Addr: a}
	case *ssa.Field:
		sv := fr.val(f, st, x.X)
		info := w.structInfoOf(x.X.Type())
		ft := fieldType(x.X.Type(), x.Field)
		f.regs[x] = Val{T: fr.def(w.SortOf(ft), fmt.Sprintf("(f%d_%s %s)", x.Field, info.name, sv.T)), S: w.SortOf(ft)}
	case *ssa.IndexAddr:
		fr.execIndexAddr(f, st, x)
	case *ssa.Index:
		cv := fr.val(f, st, x.X)
		iv := fr.val(f, st, x.Index)
		switch ct := x.X.Type().Underlying().(type) {
		case *types.Array:
			fr.assertOb(st, "index", exprText(x.X)+"["+exprText(x.Index)+"]", and("(<= 0 "+iv.T+")", fmt.Sprintf("(< %s %d)", iv.T, ct.Len())), x.Pos(), "array index out of range")
			f.regs[x] = Val{T: fr.def(w.SortOf(x.Type()), sel(cv.T, iv.T)), S: w.SortOf(x.Type())}
		default:
			// string index
			fr.assertOb(st, "index", exprText(x.X)+"["+exprText(x.Index)+"]", and("(<= 0 "+iv.T+")", "(< "+iv.T+" (strlen "+cv.T+"))"), x.Pos(), "string index out of range")
			w.declFun("strbyte", "(declare-fun strbyte (Int Int) Int)")
			r := fr.def(sInt, "(strbyte "+cv.T+" "+iv.T+")")
			fr.rangeAssume(st, r, types.Typ[types.Uint8])
			f.regs[x] = Val{T: r, S: sInt}
		}
	case *ssa.Lookup:
		fr.execLookup(f, st, x)
	case *ssa.MapUpdate:
		fr.execMapUpdate(f, st, x)
	case *ssa.MakeMap:
		mt := x.Type().Underlying().(*types.Map)
		ref := fr.allocRef("map")
		fr.curWriteFresh = true
		defer func() { fr.curWriteFresh = false }()
		dom, ml := w.MapDomHeap(mt), w.MapLenHeap()
		w.MapValHeap(mt)
		fr.heapSet(st, dom, sto(fr.heapCur(st, dom), ref, fmt.Sprintf("((as const (Array %s Bool)) false)", w.SortOf(mt.Key()))))
		fr.heapSet(st, ml, sto(fr.heapCur(st, ml), ref, "0"))
		if fr.eng.checkGuards {
			// a map this function makes is not yet published in any guarded field
			ph := fr.chanHeap("Published")
			fr.heapSet(st, ph, sto(fr.heapCur(st, ph), ref, "0"))
		}
		f.regs[x] = Val{T: ref, S: sInt}
	case *ssa.MakeSlice:
		stype := x.Type().Underlying().(*types.Slice)
		ln := fr.val(f, st, x.Len)
		cp := fr.val(f, st, x.Cap)
		fr.assertOb(st, "negative-len", "make("+exprText(x.Len)+")", and("(<= 0 "+ln.T+")", "(<= "+ln.T+" "+cp.T+")"), x.Pos(), "makeslice: len out of range")
		ref := fr.allocRef("slice")
		fr.curWriteFresh = true
		defer func() { fr.curWriteFresh = false }()
		eh := w.ElemHeap(stype.Elem())
		fr.heapSet(st, eh, sto(fr.heapCur(st, eh), ref, fmt.Sprintf("((as const (Array Int %s)) %s)", w.SortOf(stype.Elem()), w.Zero(stype.Elem()))))
		f.regs[x] = Val{T: fr.def(sSlice, fmt.Sprintf("(mk-slice %s 0 %s %s)", ref, ln.T, cp.T)), S: sSlice, FreshArr: true}
	case *ssa.MakeChan:
		ref := fr.allocRef("chan")
		fr.curWriteFresh = true
		defer func() { fr.curWriteFresh = false }()
		sz := fr.val(f, st, x.Size)
		ch := w.heap("ChanCap", "(Array Int Int)")
		fr.heapSet(st, ch, sto(fr.heapCur(st, ch), ref, sz.T))
		for _, g := range []string{"ChanSent", "ChanRecvd", "ChanClosed"} {
			h := w.heap(g, "(Array Int Int)")
			fr.heapSet(st, h, sto(fr.heapCur(st, h), ref, "0"))
		}
		f.regs[x] = Val{T: ref, S: sInt}
	case *ssa.MakeInterface:
		f.regs[x] = fr.makeInterface(st, fr.val(f, st, x.X), x.X.Type())
	case *ssa.MakeClosure:
		fn := x.Fn.(*ssa.Function)
		clo := &Closure{Fn: fn}
		for _, b := range x.Bindings {
			bv := fr.val(f, st, b)
			if bv.Addr == nil {
				bv.Addr = fr.toAddr(f, st, b)
			}
			clo.Bind = append(clo.Bind, bv.Addr)
			clo.BVal = append(clo.BVal, bv)
		}
		ref := fr.allocRef("closure")
		f.regs[x] = Val{T: ref, S: sInt, Clo: clo}
	case *ssa.Slice:
		fr.execSlice(f, st, x)
	case *ssa.SliceToArrayPointer:
		sv := fr.val(f, st, x.X)
		at := x.Type().Underlying().(*types.Pointer).Elem().Underlying().(*types.Array)
		fr.assertOb(st, "slice2array", exprText(x.X), fmt.Sprintf("(>= (s-len %s) %d)", sv.T, at.Len()), x.Pos(), "slice too short for array conversion")
		// the array pointer aliases the slice's backing store: model as element address range
		ref := fr.fresh(sInt, "arrptr")
		fr.assume(st, "(not (= "+ref+" 0))")
		// contents: copy elements from the slice (aliasing is not modelled)
		eh := w.ElemHeap(at.Elem())
		arrv := fr.fresh(w.SortOf(at), "arrval")
		i := fr.freshName("i")
		fr.assume(st, fmt.Sprintf("(forall ((%s Int)) (=> (and (<= 0 %s) (< %s %d)) (= (select %s %s) (select (select %s (s-arr %s)) (+ (s-off %s) %s)))))", i, i, i, at.Len(), arrv, i, fr.heapCur(st, eh), sv.T, sv.T, i))
		ch := w.CellHeap(at)
		fr.heapSet(st, ch, sto(fr.heapCur(st, ch), ref, arrv))
		f.regs[x] = Val{T: ref, S: sInt, Addr: ObjAddr{Ref: ref, Elem: at, Fresh: true}}
	case *ssa.Convert:
		f.regs[x] = fr.convert(st, fr.val(f, st, x.X), x.X.Type(), x.Type())
	case *ssa.ChangeType:
		v := fr.val(f, st, x.X)
		f.regs[x] = Val{T: fr.valTerm(v), S: w.SortOf(x.Type()), Clo: v.Clo, Prov: v.Prov}
		if w.SortOf(x.Type()) != w.SortOf(x.X.Type()) {
			// struct conversion between identical underlying types with distinct names
			f.regs[x] = fr.convertStruct(st, v, x.X.Type(), x.Type())
		}
	case *ssa.ChangeInterface:
		f.regs[x] = fr.val(f, st, x.X)
	case *ssa.TypeAssert:
		fr.execTypeAssert(f, st, x)
	case *ssa.Extract:
		t := fr.val(f, st, x.Tuple)
		if x.Index < len(t.Tup) {
			f.regs[x] = t.Tup[x.Index]
		} else {
			fr.errorf("extract from non-tuple %s", x.Tuple.Name())
			f.regs[x] = Val{T: fr.fresh(w.SortOf(x.Type()), "ext"), S: w.SortOf(x.Type())}
		}
	case *ssa.Call:
		f.regs[x] = fr.execCall(f, st, &x.Call, x, x.Pos())
	case *ssa.Go:
		fr.execGo(f, st, x)
	case *ssa.Defer:
		rec := &deferRec{frame: f, common: &x.Call, instr: x}
		if !x.Call.IsInvoke() {
			rec.fnVal = fr.val(f, st, x.Call.Value)
		} else {
			rec.fnVal = fr.val(f, st, x.Call.Value)
		}
		for _, a := range x.Call.Args {
			rec.args = append(rec.args, fr.val(f, st, a))
		}
		st.defers = append(st.defers, rec)
	case *ssa.RunDefers:
		fr.runDefers(f, st)
	case *ssa.Send:
		fr.execSend(f, st, x)
	case *ssa.Select:
		fr.execSelect(f, st, x)
	case *ssa.Range:
		fr.execRange(f, st, x)
	case *ssa.Next:
		fr.execNext(f, st, x)
	case *ssa.MultiConvert:
		f.regs[x] = fr.convert(st, fr.val(f, st, x.X), x.X.Type(), x.Type())
	default:
		fr.errorf("outside subset: instruction %T in %s", ins, f.fn.Name())
		if v, ok := ins.(ssa.Value); ok {
			f.regs[v] = Val{T: fr.fresh(w.SortOf(v.Type()), "unk"), S: w.SortOf(v.Type())}
		}
	}
}

func keepObj(a Addr) Addr {
	if o, ok := a.(ObjAddr); ok {
		return o
	}
	return nil
}

func (fr *FuncRun) runDefers(f *Frame, st *State) {
	// run defers registered by this frame, in reverse
	var mine []*deferRec
	var rest []*deferRec
	for _, d := range st.defers {
		if d.frame == f {
			mine = append(mine, d)
		} else {
			rest = append(rest, d)
		}
	}
	st.defers = rest
	for i := len(mine) - 1; i >= 0; i-- {
		d := mine[i]
		fr.callCommon(f, st, d.common, d.fnVal, d.args, nil, d.instr.Pos())
	}
}

func (fr *FuncRun) execUnOp(f *Frame, st *State, x *ssa.UnOp) {
	w := fr.w
	switch x.Op {
	case token.MUL: // load
		a := fr.toAddr(f, st, x.X)
		if _, isField := x.X.(*ssa.FieldAddr); !isField {
			fr.nilCheck(f, st, a, x.X, x.Pos())
		}
		fr.guardCheck(f, st, a, false, x.X, x.Pos())
		v := fr.load(st, a, x.Type())
		if p := fr.guardProv(f, st, a); p != nil {
			v.Prov = p
		}
		f.regs[x] = v
	case token.NOT:
		v := fr.val(f, st, x.X)
		f.regs[x] = Val{T: not(v.T), S: sBool}
	case token.SUB:
		v := fr.val(f, st, x.X)
		if v.S == sReal {
			f.regs[x] = Val{T: "(- " + v.T + ")", S: sReal}
			return
		}
		r := "(- " + v.T + ")"
		if bits, ok := isUnsigned(x.Type()); ok {
			r = "(mod " + r + " " + pow2(bits) + ")"
		}
		f.regs[x] = Val{T: fr.def(sInt, r), S: sInt}
	case token.XOR:
		v := fr.val(f, st, x.X)
		w.declFun("bitnot", "(declare-fun bitnot (Int) Int)")
		f.regs[x] = Val{T: "(bitnot " + v.T + ")", S: sInt}
	case token.ARROW:
		fr.execRecv(f, st, x)
	default:
		fr.errorf("outside subset: unary %s", x.Op)
		f.regs[x] = Val{T: fr.fresh(w.SortOf(x.Type()), "un"), S: w.SortOf(x.Type())}
	}
}

func (fr *FuncRun) execIndexAddr(f *Frame, st *State, x *ssa.IndexAddr) {
	iv := fr.val(f, st, x.Index)
	switch ct := x.X.Type().Underlying().(type) {
	case *types.Slice:
		sv := fr.val(f, st, x.X)
		fr.assertOb(st, "index", exprText(x.X)+"["+exprText(x.Index)+"]", and("(<= 0 "+iv.T+")", "(< "+iv.T+" (s-len "+sv.T+"))"), x.Pos(), "slice index out of range")
		a := ElemOf{Arr: fr.def(sInt, "(s-arr "+sv.T+")"), Off: "(s-off " + sv.T + ")", I: iv.T, Idx: fr.def(sInt, "(+ (s-off "+sv.T+") "+iv.T+")"), Elem: ct.Elem(), Fresh: sv.FreshArr}
		f.regs[x] = Val{T: "0", S: sInt, Addr: a}
	case *types.Pointer:
		at := ct.Elem().Underlying().(*types.Array)
		base := fr.toAddr(f, st, x.X)
		fr.nilCheck(f, st, base, x.X, x.Pos())
		fr.assertOb(st, "index", exprText(x.X)+"["+exprText(x.Index)+"]", and("(<= 0 "+iv.T+")", fmt.Sprintf("(< %s %d)", iv.T, at.Len())), x.Pos(), "array index out of range")
		f.regs[x] = Val{T: "0", S: sInt, Addr: IndexOf{Base: base, Idx: iv.T, Elem: at.Elem()}}
	default:
		fr.errorf("outside subset: IndexAddr on %s", x.X.Type())
	}
}

func (fr *FuncRun) execSlice(f *Frame, st *State, x *ssa.Slice) {
	w := fr.w
	switch ct := x.X.Type().Underlying().(type) {
	case *types.Slice:
		sv := fr.val(f, st, x.X)
		lo, hi := "0", "(s-len "+sv.T+")"
		if x.Low != nil {
			lo = fr.val(f, st, x.Low).T
		}
		if x.High != nil {
			hi = fr.val(f, st, x.High).T
		}
		mx := "(s-cap " + sv.T + ")"
		if x.Max != nil {
			mx = fr.val(f, st, x.Max).T
		}
		fr.assertOb(st, "slice", exprText(x.X)+"["+optText(x.Low)+":"+optText(x.High)+"]", and("(<= 0 "+lo+")", "(<= "+lo+" "+hi+")", "(<= "+hi+" "+mx+")", "(<= "+mx+" (s-cap "+sv.T+"))"), x.Pos(), "slice bounds out of range")
		r := fmt.Sprintf("(mk-slice (s-arr %s) (+ (s-off %s) %s) (- %s %s) (- %s %s))", sv.T, sv.T, lo, hi, lo, mx, lo)
		f.regs[x] = Val{T: fr.def(sSlice, r), S: sSlice, FreshArr: sv.FreshArr}
	case *types.Basic: // string
		sv := fr.val(f, st, x.X)
		lo, hi := "0", "(strlen "+sv.T+")"
		if x.Low != nil {
			lo = fr.val(f, st, x.Low).T
		}
		if x.High != nil {
			hi = fr.val(f, st, x.High).T
		}
		fr.assertOb(st, "slice", exprText(x.X)+"["+optText(x.Low)+":"+optText(x.High)+"]", and("(<= 0 "+lo+")", "(<= "+lo+" "+hi+")", "(<= "+hi+" (strlen "+sv.T+"))"), x.Pos(), "string slice bounds out of range")
		w.declFun("substr", "(declare-fun substr (Int Int Int) Int)")
		r := fr.def(sInt, fmt.Sprintf("(substr %s %s %s)", sv.T, lo, hi))
		fr.assume(st, fmt.Sprintf("(= (strlen %s) (- %s %s))", r, hi, lo))
		fr.assume(st, fmt.Sprintf("(=> (and (= %s 0) (= %s (strlen %s))) (= %s %s))", lo, hi, sv.T, r, sv.T))
		fr.rangeAssume(st, r, types.Typ[types.String])
		f.regs[x] = Val{T: r, S: sInt}
	case *types.Pointer: // pointer to array
		at := ct.Elem().Underlying().(*types.Array)
		base := fr.toAddr(f, st, x.X)
		arr := fr.loadRaw(st, base)
		lo, hi := "0", fmt.Sprintf("%d", at.Len())
		if x.Low != nil {
			lo = fr.val(f, st, x.Low).T
		}
		if x.High != nil {
			hi = fr.val(f, st, x.High).T
		}
		fr.assertOb(st, "slice", exprText(x.X)+"["+optText(x.Low)+":"+optText(x.High)+"]", and("(<= 0 "+lo+")", "(<= "+lo+" "+hi+")", fmt.Sprintf("(<= %s %d)", hi, at.Len())), x.Pos(), "slice bounds out of range")
		// copy semantics (aliasing with the array is not modelled; listed as an abstraction)
		ref := fr.allocRef("arrslice")
		eh := w.ElemHeap(at.Elem())
		fr.curWriteFresh = true
		fr.heapSet(st, eh, sto(fr.heapCur(st, eh), ref, arr.T))
		fr.curWriteFresh = false
		fr.assumed["abstraction: slice of array copies (no aliasing with the array)"] = true
		rv := Val{T: fr.def(sSlice, fmt.Sprintf("(mk-slice %s %s (- %s %s) (- %d %s))", ref, lo, hi, lo, at.Len(), lo)), S: sSlice, FreshArr: true}
		if x.Low == nil && x.High == nil {
			rv.ArrBack, rv.ArrLen = base, at.Len()
		}
		f.regs[x] = rv
	default:
		fr.errorf("outside subset: Slice on %s", x.X.Type())
	}
}

func optText(v ssa.Value) string {
	if v == nil {
		return ""
	}
	return exprText(v)
}

func (fr *FuncRun) makeInterface(st *State, v Val, t types.Type) Val {
	w := fr.w
	if _, ok := t.Underlying().(*types.Interface); ok {
		return v
	}
	id := w.TypeID(t)
	switch t.Underlying().(type) {
	case *types.Pointer, *types.Map, *types.Chan, *types.Signature:
		return Val{T: fr.def(sIface, fmt.Sprintf("(mk-iface %d %s)", id, fr.valTerm(v))), S: sIface, Clo: v.Clo}
	}
	box, unbox := w.Box(t)
	bt := fr.def(sInt, "("+box+" "+v.T+")")
	key := "box:" + bt
	if !hasBound(bt) && fr.once(key) {
		fr.emit(fmt.Sprintf("(assert (= (%s %s) %s))", unbox, bt, v.T))
	}
	return Val{T: fr.def(sIface, fmt.Sprintf("(mk-iface %d %s)", id, bt)), S: sIface}
}

func (fr *FuncRun) execTypeAssert(f *Frame, st *State, x *ssa.TypeAssert) {
	w := fr.w
	iv := fr.val(f, st, x.X)
	at := x.AssertedType
	srt := w.SortOf(at)
	var ok, res string
	if _, isIface := at.Underlying().(*types.Interface); isIface {
		// interface-to-interface: implements(dyntype, T) uninterpreted; nil never satisfies
		w.declFun("implements", "(declare-fun implements (Int Int) Bool)")
		id := w.TypeID(at)
		ok = fr.def(sBool, and(not(eq("(i-typ "+iv.T+")", "0")), fmt.Sprintf("(implements (i-typ %s) %d)", iv.T, id)))
		res = iv.T
		// static knowledge: concrete types known to implement
	} else {
		id := w.TypeID(at)
		ok = fr.def(sBool, fmt.Sprintf("(= (i-typ %s) %d)", iv.T, id))
		switch at.Underlying().(type) {
		case *types.Pointer, *types.Map, *types.Chan, *types.Signature:
			res = "(i-val " + iv.T + ")"
		default:
			_, unbox := w.Box(at)
			res = "(" + unbox + " (i-val " + iv.T + "))"
		}
	}
	if x.CommaOk {
		rv := Val{T: fr.def(srt, ite(ok, res, w.Zero(at))), S: srt}
		f.regs[x] = Val{Tup: []Val{rv, {T: ok, S: sBool}}}
		return
	}
	fr.assertOb(st, "assert-type", exprText(x.X)+".("+shortTypeName(at)+")", ok, x.Pos(), "type assertion may fail")
	f.regs[x] = Val{T: fr.def(srt, res), S: srt}
}

func (fr *FuncRun) convertStruct(st *State, v Val, from, to types.Type) Val {
	fi, ti := fr.w.structInfoOf(from), fr.w.structInfoOf(to)
	if fi == nil || ti == nil {
		return Val{T: v.T, S: fr.w.SortOf(to)}
	}
	s := "(mk_" + ti.name
	for i := 0; i < fi.st.NumFields(); i++ {
		s += fmt.Sprintf(" (f%d_%s %s)", i, fi.name, v.T)
	}
	s += ")"
	if fi.st.NumFields() == 0 {
		s = "mk_" + ti.name
	}
	return Val{T: fr.def(ti.name, s), S: ti.name}
}

func (fr *FuncRun) convert(st *State, v Val, from, to types.Type) Val {
	w := fr.w
	fs, ts := w.SortOf(from), w.SortOf(to)
	fb, fIsB := from.Underlying().(*types.Basic)
	tb, tIsB := to.Underlying().(*types.Basic)
	switch {
	case fIsB && tIsB && fb.Info()&types.IsInteger != 0 && tb.Info()&types.IsInteger != 0:
		if bits, ok := isUnsigned(to); ok {
			fbits, fu := isUnsigned(from)
			if fu && fbits <= bits {
				return Val{T: v.T, S: sInt}
			}
			return Val{T: fr.def(sInt, "(mod "+v.T+" "+pow2(bits)+")"), S: sInt}
		}
		if bits, ok := isSigned(to); ok {
			// unsigned -> signed of the same width: wrap values >= 2^(bits-1)
			if fbits, fu := isUnsigned(from); fu && fbits >= bits {
				half := halfPow(bits)
				return Val{T: fr.def(sInt, fmt.Sprintf("(ite (>= %s %s) (- %s %s) %s)", v.T, half, v.T, pow2(bits), v.T)), S: sInt}
			}
		}
		return Val{T: v.T, S: sInt}
	case fIsB && tIsB && fb.Info()&types.IsInteger != 0 && tb.Info()&types.IsFloat != 0:
		return Val{T: "(to_real " + v.T + ")", S: sReal}
	case fIsB && tIsB && fb.Info()&types.IsFloat != 0 && tb.Info()&types.IsInteger != 0:
		// truncation toward zero
		r := fmt.Sprintf("(ite (>= %s 0.0) (to_int %s) (- (to_int (- %s))))", v.T, v.T, v.T)
		if q, ok := fr.realQuot[v.T]; ok {
			// the real is num/den with integer num and positive constant den: truncation is integer division
			r = fmt.Sprintf("(ite (>= %s 0) (div %s %s) (- (div (- %s) %s)))", q[0], q[0], q[1], q[0], q[1])
		}
		if bits, ok := isUnsigned(to); ok {
			r = "(mod " + r + " " + pow2(bits) + ")"
		}
		return Val{T: fr.def(sInt, r), S: sInt}
	case fIsB && tIsB && fb.Info()&types.IsFloat != 0 && tb.Info()&types.IsFloat != 0:
		return v
	}
	// string <-> []byte, etc: uninterpreted conversion
	if fs == ts {
		if isStruct(from) && isStruct(to) {
			return fr.convertStruct(st, v, from, to)
		}
		return Val{T: v.T, S: ts}
	}
	name := "conv_" + shortTypeName(from) + "_to_" + shortTypeName(to)
	w.declFun(name, fmt.Sprintf("(declare-fun %s (%s) %s)", name, fs, ts))
	r := Val{T: fr.def(ts, "("+name+" "+v.T+")"), S: ts}
	if ts == sSlice {
		// a fresh backing array
		ref := fr.allocRef("conv")
		ln := fr.fresh(sInt, "convlen")
		fr.assume(st, "(<= 0 "+ln+")")
		if fb != nil && fb.Info()&types.IsString != 0 {
			fr.assume(st, "(= "+ln+" (strlen "+v.T+"))")
		}
		r = Val{T: fr.def(sSlice, fmt.Sprintf("(mk-slice %s 0 %s %s)", ref, ln, ln)), S: sSlice, FreshArr: true}
		if es, ok := to.Underlying().(*types.Slice); ok {
			w.ElemHeap(es.Elem())
		}
	} else {
		fr.rangeAssume(st, r.T, to)
	}
	return r
}

func halfPow(bits int) string {
	switch bits {
	case 8:
		return "128"
	case 16:
		return "32768"
	case 32:
		return "2147483648"
	}
	return "9223372036854775808"
}

// binop -------------------------------------------------------------------------

func (fr *FuncRun) binop(st *State, op token.Token, a, b Val, at, bt, rt types.Type, x ssa.Value, pos token.Pos) Val {
	w := fr.w
	at_, bt_ := fr.valTerm(a), fr.valTerm(b)
	switch op {
	case token.EQL, token.NEQ:
		var e string
		e = eq(at_, bt_)
		if a.S == sSlice && b.S == sSlice {
			// slices only compare with nil: that is a test of the data pointer
			switch {
			case bt_ == "(mk-slice 0 0 0 0)":
				e = eq("(s-arr "+at_+")", "0")
			case at_ == "(mk-slice 0 0 0 0)":
				e = eq("(s-arr "+bt_+")", "0")
			}
		}
		if op == token.NEQ {
			e = not(e)
		}
		return Val{T: fr.def(sBool, e), S: sBool}
	case token.LSS, token.LEQ, token.GTR, token.GEQ:
		ops := map[token.Token]string{token.LSS: "<", token.LEQ: "<=", token.GTR: ">", token.GEQ: ">="}
		if tb, ok := at.Underlying().(*types.Basic); ok && tb.Info()&types.IsString != 0 {
			w.declFun("strless", "(declare-fun strless (Int Int) Bool)")
			var e string
			switch op {
			case token.LSS:
				e = "(strless " + at_ + " " + bt_ + ")"
			case token.GTR:
				e = "(strless " + bt_ + " " + at_ + ")"
			case token.LEQ:
				e = not("(strless " + bt_ + " " + at_ + ")")
			default:
				e = not("(strless " + at_ + " " + bt_ + ")")
			}
			return Val{T: fr.def(sBool, e), S: sBool}
		}
		return Val{T: fr.def(sBool, "("+ops[op]+" "+at_+" "+bt_+")"), S: sBool}
	case token.LAND:
		return Val{T: and(at_, bt_), S: sBool}
	case token.LOR:
		return Val{T: or(at_, bt_), S: sBool}
	}
	srt := w.SortOf(rt)
	if srt == sReal {
		ops := map[token.Token]string{token.ADD: "+", token.SUB: "-", token.MUL: "*", token.QUO: "/"}
		if o, ok := ops[op]; ok {
			if op == token.QUO {
				// float division by zero does not panic (Inf); treated as unspecified real
			}
			return Val{T: fr.def(sReal, "("+o+" "+at_+" "+bt_+")"), S: sReal}
		}
	}
	if tb, ok := rt.Underlying().(*types.Basic); ok && tb.Info()&types.IsString != 0 && op == token.ADD {
		r := fr.def(sInt, "(strcat "+at_+" "+bt_+")")
		fr.assume(st, fmt.Sprintf("(= (strlen %s) (+ (strlen %s) (strlen %s)))", r, at_, bt_))
		fr.rangeAssume(st, r, rt)
		return Val{T: r, S: sInt}
	}
	var r string
	switch op {
	case token.ADD:
		r = "(+ " + at_ + " " + bt_ + ")"
	case token.SUB:
		r = "(- " + at_ + " " + bt_ + ")"
	case token.MUL:
		r = "(* " + at_ + " " + bt_ + ")"
	case token.QUO:
		fr.assertOb(st, "div0", exprText(x), not(eq(bt_, "0")), pos, "integer division by zero")
		if _, ok := isSigned(rt); ok {
			// Go truncates toward zero
			r = fmt.Sprintf("(ite (>= %s 0) (div %s %s) (- (div (- %s) %s)))", at_, at_, bt_, at_, bt_)
		} else {
			r = "(div " + at_ + " " + bt_ + ")"
		}
	case token.REM:
		fr.assertOb(st, "div0", exprText(x), not(eq(bt_, "0")), pos, "integer division by zero")
		if _, ok := isSigned(rt); ok {
			r = fmt.Sprintf("(ite (>= %s 0) (mod %s %s) (- (mod (- %s) %s)))", at_, at_, bt_, at_, bt_)
		} else {
			r = "(mod " + at_ + " " + bt_ + ")"
		}
	case token.SHL, token.SHR, token.AND, token.OR, token.XOR, token.AND_NOT:
		name := map[token.Token]string{token.SHL: "bv_shl", token.SHR: "bv_shr", token.AND: "bv_and", token.OR: "bv_or", token.XOR: "bv_xor", token.AND_NOT: "bv_andnot"}[op]
		w.declFun(name, fmt.Sprintf("(declare-fun %s (Int Int) Int)", name))
		r = "(" + name + " " + at_ + " " + bt_ + ")"
		res := fr.def(sInt, r)
		fr.rangeAssume(st, res, rt)
		return Val{T: res, S: sInt}
	default:
		fr.errorf("outside subset: binary op %s", op)
		return Val{T: fr.fresh(srt, "bin"), S: srt}
	}
	if bits, ok := isUnsigned(rt); ok && (op == token.ADD || op == token.SUB || op == token.MUL) {
		r = "(mod " + r + " " + pow2(bits) + ")"
	}
	return Val{T: fr.def(sInt, r), S: sInt}
}

// exprText renders a readable, line-independent text for an SSA value.
func exprText(v ssa.Value) string {
	return exprTextD(v, 0)
}

func exprTextD(v ssa.Value, d int) string {
	if v == nil {
		return ""
	}
	if d > 6 {
		return "…"
	}
	switch x := v.(type) {
	case *ssa.Alloc:
		if x.Comment != "" {
			return x.Comment
		}
		return "tmp"
	case *ssa.Parameter:
		return x.Name()
	case *ssa.FreeVar:
		return x.Name()
	case *ssa.Const:
		if x.Value == nil {
			return "nil"
		}
		s := x.Value.ExactString()
		if len(s) > 20 {
			s = s[:20] + "…"
		}
		return s
	case *ssa.UnOp:
		if x.Op == token.MUL {
			return exprTextD(x.X, d+1)
		}
		return x.Op.String() + exprTextD(x.X, d+1)
	case *ssa.FieldAddr:
		st := x.X.Type().Underlying().(*types.Pointer).Elem().Underlying().(*types.Struct)
		return exprTextD(x.X, d+1) + "." + st.Field(x.Field).Name()
	case *ssa.Field:
		st := x.X.Type().Underlying().(*types.Struct)
		return exprTextD(x.X, d+1) + "." + st.Field(x.Field).Name()
	case *ssa.IndexAddr:
		return exprTextD(x.X, d+1) + "[" + exprTextD(x.Index, d+1) + "]"
	case *ssa.Index:
		return exprTextD(x.X, d+1) + "[" + exprTextD(x.Index, d+1) + "]"
	case *ssa.Lookup:
		return exprTextD(x.X, d+1) + "[" + exprTextD(x.Index, d+1) + "]"
	case *ssa.Extract:
		return exprTextD(x.Tuple, d+1) + fmt.Sprintf("#%d", x.Index)
	case *ssa.Call:
		return calleeName(&x.Call) + "()"
	case *ssa.BinOp:
		return exprTextD(x.X, d+1) + x.Op.String() + exprTextD(x.Y, d+1)
	case *ssa.Convert:
		return exprTextD(x.X, d+1)
	case *ssa.ChangeType:
		return exprTextD(x.X, d+1)
	case *ssa.ChangeInterface:
		return exprTextD(x.X, d+1)
	case *ssa.MakeInterface:
		return exprTextD(x.X, d+1)
	case *ssa.TypeAssert:
		return exprTextD(x.X, d+1) + ".(T)"
	case *ssa.Slice:
		return exprTextD(x.X, d+1) + "[:]"
	case *ssa.Global:
		return x.Name()
	case *ssa.Function:
		return x.Name()
	case *ssa.Phi:
		return "phi"
	case *ssa.Next:
		return "next"
	}
	return v.Name()
}

func calleeName(c *ssa.CallCommon) string {
	if c.IsInvoke() {
		return c.Method.Name()
	}
	if fn := c.StaticCallee(); fn != nil {
		return fn.Name()
	}
	if b, ok := c.Value.(*ssa.Builtin); ok {
		return b.Name()
	}
	return exprText(c.Value)
}

// rangeIntBound recognises the shape go/ssa gives a range-over-int loop whose body starts at head: every
// predecessor ends in `if x < n goto head` with the same SSA value n. It returns n, or nil.
func rangeIntBound(head *ssa.BasicBlock, iter *ssa.Alloc) ssa.Value {
	var n ssa.Value
	mine := false
	for _, p := range head.Preds {
		if len(p.Instrs) == 0 || len(p.Succs) != 2 || p.Succs[0] != head {
			return nil
		}
		ifi, ok := p.Instrs[len(p.Instrs)-1].(*ssa.If)
		if !ok {
			return nil
		}
		b, ok := ifi.Cond.(*ssa.BinOp)
		if !ok || b.Op != token.LSS {
			return nil
		}
		if n != nil && n != b.Y {
			return nil
		}
		n = b.Y
		// the back edge compares this counter's incremented value
		if add, ok := b.X.(*ssa.BinOp); ok && add.Op == token.ADD {
			if ld, ok := add.X.(*ssa.UnOp); ok && ld.Op == token.MUL && ld.X == iter {
				mine = true
			}
		}
	}
	if !mine {
		return nil
	}
	if _, isConst := n.(*ssa.Const); n == nil || isConst {
		return n
	}
	if in, ok := n.(ssa.Instruction); ok && in.Block() != nil && in.Block().Dominates(head) && in.Block() != head {
		return n
	}
	if _, ok := n.(*ssa.Parameter); ok {
		return n
	}
	return nil
}

// loopReasonsAboutFreshness: the weak frame (entry-state objects unchanged, every other write proved to hit an
// object of this function) is used for loops declared `freshwrites` in the contract; any other loop that writes
// through loop-variant references to objects that are not statically fresh has no automatic frame for that heap.
func (fr *FuncRun) loopReasonsAboutFreshness(f *Frame, head *ssa.BasicBlock) bool {
	return f.contract != nil && f.contract.WeakFrame[fr.loopOrdinal(f, head)]
}

func lockLabel(f *Frame, n, i int) string {
	l := fmt.Sprintf("loop%d:lockstate:%d", n, i)
	if !f.top {
		l = funcShortName(f.fn) + "." + l
	}
	return l
}
