package main

import (
	"flag"
	"fmt"
	"os"
	"runtime"
	"sort"
	"strings"

	"golang.org/x/tools/go/packages"
	"golang.org/x/tools/go/ssa"
	"golang.org/x/tools/go/ssa/ssautil"
)

func loadEngine(repo string, patterns []string) (*Engine, error) {
	cfg := &packages.Config{
		Mode:       packages.LoadAllSyntax,
		Dir:        repo,
		BuildFlags: []string{"-tags=verif"},
		Env:        append(os.Environ(), "GOFLAGS=-mod=mod", "GOPROXY=off", "GOSUMDB=off", "GOTOOLCHAIN=local"),
	}
	pkgs, err := packages.Load(cfg, patterns...)
	if err != nil {
		return nil, err
	}
	var errs []string
	packages.Visit(pkgs, nil, func(p *packages.Package) {
		if strings.HasPrefix(p.PkgPath, repoPrefix) {
			for _, e := range p.Errors {
				errs = append(errs, e.Error())
			}
		}
	})
	if len(errs) > 0 {
		return nil, fmt.Errorf("package errors:\n%s", strings.Join(errs, "\n"))
	}
	prog, _ := ssautil.AllPackages(pkgs, ssa.NaiveForm|ssa.InstantiateGenerics)
	prog.Build()
	e := &Engine{prog: prog, pkgs: pkgs, pkgByPath: map[string]*packages.Package{}, ssaPkgs: map[string]*ssa.Package{}, contracts: NewContractDB()}
	packages.Visit(pkgs, nil, func(p *packages.Package) {
		e.pkgByPath[p.PkgPath] = p
		if sp := prog.Package(p.Types); sp != nil {
			e.ssaPkgs[p.PkgPath] = sp
		}
		if strings.HasPrefix(p.PkgPath, repoPrefix) {
			e.contracts.LoadPackage(p)
		}
	})
	return e, nil
}

func main() {
	if len(os.Args) < 2 {
		fmt.Fprintln(os.Stderr, "usage: govc verify|check ...")
		os.Exit(2)
	}
	switch os.Args[1] {
	case "verify":
		cmdVerify(os.Args[2:])
	case "check":
		cmdCheck(os.Args[2:])
	default:
		fmt.Fprintln(os.Stderr, "unknown command")
		os.Exit(2)
	}
}

func cmdVerify(args []string) {
	fs := flag.NewFlagSet("verify", flag.ExitOnError)
	repo := fs.String("repo", "/repo", "repository")
	pkgs := fs.String("pkgs", "", "comma separated package patterns")
	fns := fs.String("fn", "", "comma separated pkgsuffix:shortname")
	timeout := fs.Int("timeout", 10, "solver timeout")
	dump := fs.String("dump", "", "keep SMT files in this dir")
	guards := fs.Bool("guards", false, "check guarded_by")
	verbose := fs.Bool("v", false, "verbose")
	kinds := fs.String("kinds", "", "only these obligation kinds")
	fs.Parse(args)
	e, err := loadEngine(*repo, strings.Split(*pkgs, ","))
	if err != nil {
		fmt.Fprintln(os.Stderr, err)
		os.Exit(2)
	}
	e.checkGuards = *guards
	for _, ce := range e.contracts.errors {
		fmt.Println("CONTRACT-ERROR", ce)
	}
	var results []*FuncResult
	for _, spec := range strings.Split(*fns, ",") {
		i := strings.Index(spec, ":")
		pkg, name := repoPrefix+"/"+spec[:i], spec[i+1:]
		fn := e.FindFunc(pkg, name)
		if fn == nil {
			fmt.Println("NOT FOUND", spec)
			continue
		}
		results = append(results, e.VerifyFunction(fn))
	}
	dir := *dump
	if dir == "" {
		dir, _ = os.MkdirTemp("", "govc")
		defer os.RemoveAll(dir)
	} else {
		os.MkdirAll(dir, 0o755)
	}
	cfg := &SolverCfg{TimeoutS: *timeout, Dir: dir, Jobs: runtime.NumCPU(), Keep: *dump != ""}
	kindSet := map[string]bool{}
	for _, k := range strings.Split(*kinds, ",") {
		if k != "" {
			kindSet[k] = true
		}
	}
	solveAll(results, cfg, func(ob *Obligation) bool { return len(kindSet) == 0 || kindSet[ob.Kind] })
	for _, r := range results {
		fmt.Printf("== %s (%d instrs, %d obligations)\n", r.Fn, r.Instrs, len(r.Obls))
		for _, er := range r.Errors {
			fmt.Println("   ERROR:", er)
		}
		if *verbose {
			for _, a := range r.Assumed {
				fmt.Println("   assumed:", a)
			}
		}
		stat := map[string]int{}
		for _, ob := range r.Obls {
			stat[ob.Status]++
			if ob.Status != "discharged" || *verbose {
				fmt.Printf("   %-10s %-60s %s %dms  %s [%s:%d]\n", ob.Status, ob.Name, ob.Solver, ob.Ms, ob.Desc, shortFile(ob.Pos.Filename), ob.Pos.Line)
				if ob.Static && ob.Status != "discharged" {
					fmt.Println("      ", ob.Output)
				}
				if ob.Status == "refuted" && *verbose {
					fmt.Println(firstLines(ob.Output, 40))
				}
			}
		}
		var ks []string
		for k, v := range stat {
			ks = append(ks, fmt.Sprintf("%s=%d", k, v))
		}
		sort.Strings(ks)
		fmt.Println("  ", strings.Join(ks, " "))
	}
}
