package main

import (
	"bufio"
	"encoding/json"
	"flag"
	"fmt"
	"os"
	"os/exec"
	"path/filepath"
	"regexp"
	"runtime"
	"sort"
	"strconv"
	"strings"
	"time"
)

// PropSpec is /verif/props/<id>.json.
type PropSpec struct {
	ID        string     `json:"id"`
	Packages  []string   `json:"packages"`
	Functions []PropFunc `json:"functions"`
	Guards    bool       `json:"guards"`
	// Kinds restricts which obligation kinds belong to this property (empty = all)
	Kinds      []string          `json:"kinds"`
	NotDecided []string          `json:"not_decided"`
	Assumes    []string          `json:"assumptions"`
	Bounded    []BoundedStandin  `json:"bounded_standins"`
	Replays    map[string]string `json:"replays"` // obligation-name regexp -> driver
	// ReplayProbes: [driver, obligation name] pairs run in the thorough tier against the current tree
	ReplayProbes [][]string `json:"replay_probes"`
	Anchors      []string   `json:"anchors"` // function names whose disappearance is a violation
	Files        []string   `json:"files"`   // verify every function declared in these files (path suffixes)
	FileKinds    []string   `json:"file_kinds"`
}

type PropFunc struct {
	Pkg   string   `json:"pkg"`
	Name  string   `json:"name"`
	Kinds []string `json:"kinds"`
	Match []string `json:"match"` // if set: only obligations whose name matches one of these regexps
}

type BoundedStandin struct {
	Name  string `json:"name"`
	Cmd   string `json:"cmd"`
	Bound string `json:"bound"`
}

type KnownFinding struct {
	Property   string `json:"property"`
	Obligation string `json:"obligation"`
	What       string `json:"what"`
}

type KnownFindings struct {
	Findings []KnownFinding `json:"findings"`
	Fixed    []string       `json:"fixed"`
}

var safetyKinds = map[string]bool{"nil": true, "index": true, "slice": true, "div0": true, "nilmap-store": true, "assert-type": true,
	"slice2array": true, "closed-send": true, "explicit-panic": true, "negative-len": true}

func readLines(path string) []string {
	f, err := os.Open(path)
	if err != nil {
		return nil
	}
	defer f.Close()
	var out []string
	sc := bufio.NewScanner(f)
	sc.Buffer(make([]byte, 1<<20), 1<<20)
	for sc.Scan() {
		t := strings.TrimSpace(sc.Text())
		if t != "" && !strings.HasPrefix(t, "//") {
			out = append(out, t)
		}
	}
	return out
}

func cmdCheck(args []string) {
	fs := flag.NewFlagSet("check", flag.ExitOnError)
	repo := fs.String("repo", "/repo", "repository")
	root := fs.String("root", "/verif", "verif root")
	tier := fs.String("tier", "quick", "quick|thorough")
	update := fs.Bool("update-claims", false, "rewrite the claims file from the discharged obligations")
	verbose := fs.Bool("v", false, "verbose")
	dump := fs.String("dump", "", "keep SMT files here")
	fs.Parse(args)
	if fs.NArg() < 1 {
		fmt.Fprintln(os.Stderr, "usage: govc check [flags] <property-id>")
		os.Exit(2)
	}
	id := fs.Arg(0)
	if t := os.Getenv("VERIF_TIER"); t != "" && *tier == "" {
		*tier = t
	}
	seed := 0
	if s := os.Getenv("VERIF_SEED"); s != "" {
		seed, _ = strconv.Atoi(s)
	}
	start := time.Now()
	var spec PropSpec
	data, err := os.ReadFile(filepath.Join(*root, "props", id+".json"))
	if err != nil {
		fmt.Fprintln(os.Stderr, err)
		os.Exit(2)
	}
	if err := json.Unmarshal(data, &spec); err != nil {
		fmt.Fprintln(os.Stderr, "bad prop spec:", err)
		os.Exit(2)
	}
	var kf KnownFindings
	if d, err := os.ReadFile(filepath.Join(*root, "known_findings.json")); err == nil {
		json.Unmarshal(d, &kf)
	}
	known := map[string]KnownFinding{}
	for _, k := range kf.Findings {
		if k.Property == id {
			known[k.Obligation] = k
		}
	}

	e, err := loadEngine(*repo, spec.Packages)
	type violation struct {
		ob     *Obligation
		reason string
		res    *FuncResult
	}
	var violations []violation
	var results []*FuncResult
	var notes []string
	if err != nil {
		// the tree does not load (compile error): not a property verdict
		fmt.Fprintln(os.Stderr, "govc: cannot load packages:", err)
		os.Exit(2)
	}
	e.checkGuards = spec.Guards
	// the locals of the functions as they were named when the claims were taken (renaming tolerance)
	localsPath := filepath.Join(*root, "claims", id+".locals.json")
	if b, err := os.ReadFile(localsPath); err == nil && !*update {
		json.Unmarshal(b, &e.localAliases)
	}
	for _, ce := range e.contracts.errors {
		notes = append(notes, "contract parse error: "+ce)
	}
	propKinds := map[string]bool{}
	for _, k := range spec.Kinds {
		propKinds[k] = true
	}
	// sweepKind: in a sweep (files listed) the obligations of the property's own kinds form a closed set
	sweepKind := func(kind string) bool {
		if len(spec.Files) == 0 {
			return false
		}
		if len(propKinds) > 0 {
			return propKinds[kind]
		}
		return safetyKinds[kind]
	}
	funcKinds := map[string]map[string]bool{}
	funcMatch := map[string][]*regexp.Regexp{}
	var missingFuncs []string
	for _, pf := range spec.Functions {
		fn := e.FindFunc(repoPrefix+"/"+pf.Pkg, pf.Name)
		if fn == nil {
			missingFuncs = append(missingFuncs, pf.Pkg+"."+pf.Name)
			continue
		}
		r := func() (r *FuncResult) {
			// an engine failure on one function must not take the check down: the function counts as outside the
			// supported subset, and its claimed obligations are reported
			defer func() {
				if x := recover(); x != nil {
					r = &FuncResult{Fn: funcDisplayName(fn), Errors: []string{fmt.Sprintf("outside subset: engine panic: %v", x)}}
				}
			}()
			return e.VerifyFunction(fn)
		}()
		results = append(results, r)
		for _, pat := range pf.Match {
			if re, err := regexp.Compile(pat); err == nil {
				funcMatch[r.Fn] = append(funcMatch[r.Fn], re)
			}
		}
		if len(pf.Kinds) > 0 {
			m := map[string]bool{}
			for _, k := range pf.Kinds {
				m[k] = true
			}
			funcKinds[r.Fn] = m
		}
	}
	done := map[string]bool{}
	for _, r := range results {
		done[r.Fn] = true
	}
	if len(spec.Files) > 0 {
		fk := map[string]bool{}
		for _, k := range spec.FileKinds {
			fk[k] = true
		}
		for _, fn := range e.FuncsInFiles(spec.Files) {
			if done[funcDisplayName(fn)] {
				continue
			}
			r := func() (r *FuncResult) {
				defer func() {
					if x := recover(); x != nil {
						r = &FuncResult{Fn: funcDisplayName(fn), Errors: []string{fmt.Sprintf("outside subset: engine panic: %v", x)}}
					}
				}()
				return e.VerifyFunction(fn)
			}()
			results = append(results, r)
			if len(fk) > 0 {
				funcKinds[r.Fn] = fk
			}
		}
	}
	inProp := func(ob *Obligation) bool {
		if ob.Kind == "cover" {
			return true
		}
		// facts that later obligations rely on must be established by the same check
		if supportKind(ob.Kind) {
			return true
		}
		if res, ok := funcMatch[ob.Fn]; ok {
			hit := false
			for _, re := range res {
				if re.MatchString(ob.Name) {
					hit = true
				}
			}
			if !hit {
				return false
			}
		}
		if m, ok := funcKinds[ob.Fn]; ok {
			return m[ob.Kind]
		}
		if len(propKinds) > 0 {
			return propKinds[ob.Kind]
		}
		return true
	}
	dir := *dump
	if dir == "" {
		dir, _ = os.MkdirTemp("", "govc")
		defer os.RemoveAll(dir)
	} else {
		os.MkdirAll(dir, 0o755)
	}
	to := 10
	if *tier == "thorough" {
		to = 60
	}
	// (each obligation races three solver processes: two thirds of the processors' worth of obligations at a time)
	cfg := &SolverCfg{TimeoutS: to, Dir: dir, Jobs: (2*runtime.NumCPU() + 2) / 3, Keep: *dump != "", Seed: seed}
	claimsPath := filepath.Join(*root, "claims", id+".txt")
	claimed := map[string]bool{}
	for _, l := range readLines(claimsPath) {
		claimed[l] = true
	}
	// quick tier: obligations that are neither claimed nor listed as known findings are only counted,
	// not solved (they cannot raise an alarm); thorough and --update-claims solve everything.
	solveThis := inProp
	if *tier == "quick" && !*update && len(claimed) > 0 && !*verbose {
		solveThis = func(ob *Obligation) bool {
			if !inProp(ob) {
				return false
			}
			if ob.Kind == "cover" || claimed[ob.Name] {
				return true
			}
			if sweepKind(ob.Kind) {
				// a sweep also decides sites that are new since the claims were taken
				return true
			}
			if supportKind(ob.Kind) || ob.Universal {
				// later obligations of the function assume these: they are decided whether claimed or not
				return true
			}
			_, isKnown := known[ob.Name]
			return isKnown
		}
	}
	solveAll(results, cfg, solveThis)
	// claimed obligations that are no longer generated may have been renamed by the change (an ordinal shifted, a
	// branch disappeared): solve the unclaimed obligations of the same function and kind as well; a failing one is
	// then reported instead of silently counting as new.
	changedFK := map[string]bool{}
	{
		have := map[string]bool{}
		for _, r := range results {
			for _, ob := range r.Obls {
				have[ob.Name] = true
			}
		}
		for name := range claimed {
			if !have[name] {
				if i := strings.Index(name, "#"); i >= 0 {
					changedFK[name[:i]+"#"+obKindFromName(name)] = true
				}
			}
		}
		if len(changedFK) > 0 {
			solveAll(results, cfg, func(ob *Obligation) bool {
				return ob.Status == "" && inProp(ob) && changedFK[ob.Fn+"#"+ob.Kind]
			})
		}
	}

	byName := map[string]*Obligation{}
	resOf := map[string]*FuncResult{}
	outside := map[string]bool{}
	for _, r := range results {
		for _, er := range r.Errors {
			if strings.Contains(er, "outside subset") || strings.Contains(er, "escapes as a value") {
				outside[r.Fn] = true
			}
			notes = append(notes, r.Fn+": "+er)
		}
		for _, ob := range r.Obls {
			if !inProp(ob) {
				continue
			}
			byName[ob.Name] = ob
			resOf[ob.Name] = r
		}
	}
	// retry obligations that matter and were not decided: first with the same seed, a longer budget and fewer
	// solver processes at once (an undecided query is most often one that lost the race for the processors), then
	// once more at the long budget with another seed
	collectRetry := func() []*Obligation {
		var retry []*Obligation
		for name, ob := range byName {
			if ob.Status != "unknown" || ob.Kind == "cover" {
				continue
			}
			if claimed[name] || (supportKind(ob.Kind) || ob.Universal) && solveThis(ob) || (len(spec.Files) > 0 && sweepKind(ob.Kind) && solveThis(ob)) {
				retry = append(retry, ob)
			}
		}
		return retry
	}
	if os.Getenv("GOVC_NO_RETRY") == "" {
		passes := []*SolverCfg{
			{TimeoutS: 30, Dir: dir, Jobs: (runtime.NumCPU() + 2) / 3, Seed: seed},
			{TimeoutS: 60, Dir: dir, Jobs: (runtime.NumCPU() + 2) / 3, Seed: seed + 7},
		}
		if os.Getenv("GOVC_SHORT_RETRY") != "" {
			// the must-fail corpus: an obligation that is expected to fail need not be tried for long
			passes = []*SolverCfg{{TimeoutS: 20, Dir: dir, Jobs: (runtime.NumCPU() + 2) / 3, Seed: seed}}
		}
		for pass, rc := range passes {
			retry := collectRetry()
			if len(retry) == 0 {
				break
			}
			_ = pass
			set := map[*Obligation]bool{}
			for _, ob := range retry {
				set[ob] = true
				ob.Status = ""
			}
			solveAll(results, rc, func(ob *Obligation) bool { return set[ob] })
		}
	}

	if *update {
		var names []string
		for name, ob := range byName {
			if ob.Kind == "cover" {
				continue
			}
			if ob.Status == "discharged" && !outside[ob.Fn] {
				slowest := ob.Ms
				if ob.MaxPartMs > 0 {
					slowest = ob.MaxPartMs
				}
				if slowest > int64(to*1000*7/10) && !claimed[name] {
					// (an obligation that is already claimed is not dropped for being slow in one run: how long a query
					// takes depends on what else the machine is doing)
					notes = append(notes, "unclaimed (slow): "+name)
					continue
				}
				names = append(names, name)
			}
		}
		sort.Strings(names)
		for name, ob := range byName {
			if supportKind(ob.Kind) && ob.Status != "discharged" {
				fmt.Printf("SUPPORT-UNPROVED %s [%s]: later obligations of this function assume it\n", name, ob.Status)
			}
		}
		newSet := map[string]bool{}
		for _, n := range names {
			newSet[n] = true
		}
		for old := range claimed {
			if !newSet[old] {
				st := "no longer generated"
				if ob, ok := byName[old]; ok {
					st = ob.Status
				}
				fmt.Printf("CLAIM-DROPPED %s [%s]\n", old, st)
			}
		}
		os.MkdirAll(filepath.Dir(claimsPath), 0o755)
		os.WriteFile(claimsPath, []byte(strings.Join(names, "\n")+"\n"), 0o644)
		if lb, err := json.MarshalIndent(e.seenLocals, "", " "); err == nil {
			os.WriteFile(localsPath, lb, 0o644)
		}
		claimed = map[string]bool{}
		for _, n := range names {
			claimed[n] = true
		}
	}

	// verdicts
	var knownHit []KnownFinding
	var undecidedNew, retired []string
	outsideReported := map[string]bool{}
	discharged, total := 0, 0
	var perOb []map[string]interface{}
	var claimedNames []string
	for n := range claimed {
		claimedNames = append(claimedNames, n)
	}
	sort.Strings(claimedNames)
	for _, name := range claimedNames {
		ob, ok := byName[name]
		if !ok {
			if i := strings.Index(name, "#"); i >= 0 && outside[name[:i]] {
				// the function could not be verified at all (engine failure or construct outside the subset): nothing
				// claimed for it is established
				if !outsideReported[name[:i]] {
					outsideReported[name[:i]] = true
					var errs []string
					for _, r := range results {
						if r.Fn == name[:i] {
							errs = r.Errors
						}
					}
					o := &Obligation{Name: name, Kind: obKindFromName(name), Fn: name[:i], Status: "unbound", Output: "function left the supported subset: " + strings.Join(errs, "; ")}
					violations = append(violations, violation{ob: o, reason: "outside-subset"})
				}
				continue
			}
			kind := obKindFromName(name)
			if safetyKinds[kind] || kind == "guarded" || kind == "unguarded-write" || kind == "loop-frame" || kind == "lock-reentry" || kind == "unlock-not-held" || kind == "pre" || kind == "inv-entry" || kind == "inv-preserved" || kind == "lock-balance" {
				// the instruction that could fail is gone, or a helper changed shape
				retired = append(retired, name)
				continue
			}
			o := &Obligation{Name: name, Kind: kind, Status: "unbound", Output: "claimed obligation is no longer generated (contract clause or anchor function no longer binds to the code)"}
			violations = append(violations, violation{ob: o, reason: "unbound"})
			continue
		}
		total++
		if outside[ob.Fn] {
			o := *ob
			o.Output = "function left the supported subset: " + strings.Join(resOf[name].Errors, "; ")
			violations = append(violations, violation{ob: &o, reason: "outside-subset", res: resOf[name]})
			continue
		}
		if ob.Status == "discharged" {
			discharged++
			perOb = append(perOb, map[string]interface{}{"name": ob.Name, "kind": ob.Kind, "solver": ob.Solver, "ms": ob.Ms})
			continue
		}
		if k, ok := known[name]; ok {
			knownHit = append(knownHit, k)
			total--
			continue
		}
		violations = append(violations, violation{ob: ob, reason: ob.Status, res: resOf[name]})
	}
	var covers []map[string]interface{}
	for name, ob := range byName {
		if ob.Kind == "cover" {
			covers = append(covers, map[string]interface{}{"name": name, "status": ob.Status, "solver": ob.Solver})
			if ob.Status == "refuted" {
				violations = append(violations, violation{ob: ob, reason: "vacuous-precondition", res: resOf[name]})
			}
			continue
		}
		if claimed[name] {
			continue
		}
		if ob.Status == "discharged" {
			continue
		}
		if k, ok := known[name]; ok {
			knownHit = append(knownHit, k)
			continue
		}
		if ob.Status == "" {
			ob.Status = "not-solved"
		}
		if changedFK[ob.Fn+"#"+ob.Kind] && (ob.Status == "refuted" || ob.Status == "unknown") {
			o := *ob
			o.Desc = "(takes the place of a claimed obligation that is no longer generated) " + o.Desc
			violations = append(violations, violation{ob: &o, reason: "renamed-" + ob.Status, res: resOf[name]})
			continue
		}
		if supportKind(ob.Kind) && (ob.Status == "refuted" || ob.Status == "unknown") {
			// an invariant, precondition or frame side condition that later obligations of the function assume:
			// unproved, it would make those proofs meaningless
			o := *ob
			o.Desc = "(unproved fact that later obligations assume) " + o.Desc
			violations = append(violations, violation{ob: &o, reason: "support-" + ob.Status, res: resOf[name]})
			continue
		}
		if ob.Universal && (ob.Status == "refuted" || ob.Status == "unknown") {
			// "every call of X satisfies ...": a call the clause cannot be shown for, claimed before or not
			o := *ob
			o.Desc = "(a call-site clause that speaks of every call of the function) " + o.Desc
			violations = append(violations, violation{ob: &o, reason: "universal-" + ob.Status, res: resOf[name]})
			continue
		}
		if sweepKind(ob.Kind) && (ob.Status == "refuted" || ob.Status == "unknown") {
			// a sweep claims every site of its kinds in the listed files: a new site that cannot be shown safe counts
			o := *ob
			o.Desc = "(new site in a swept file) " + o.Desc
			violations = append(violations, violation{ob: &o, reason: "new-" + ob.Status, res: resOf[name]})
			continue
		}
		undecidedNew = append(undecidedNew, name+" ["+ob.Status+"]")
	}
	for _, mf := range missingFuncs {
		isAnchor := false
		for _, a := range spec.Anchors {
			if strings.HasSuffix(mf, a) {
				isAnchor = true
			}
		}
		if isAnchor {
			o := &Obligation{Name: mf + "#anchor", Kind: "anchor-unbound", Status: "unbound", Output: "anchor function not found"}
			violations = append(violations, violation{ob: o, reason: "anchor-unbound"})
		} else {
			notes = append(notes, "helper function under contract not found (callers are verified with the callee inlined): "+mf)
		}
	}
	sort.Strings(undecidedNew)
	sort.Strings(retired)
	// code that is unreachable in the model (e.g. behind a call whose effect is not modelled): what is claimed about
	// it is proved vacuously. Reported, so that a contract that "verifies" for this reason is seen.
	{
		deadFns := map[string]string{}
		var names []string
		for name, ob := range byName {
			if ob.Kind == "cover" && ob.Solver == "dead-code" {
				if _, seen := deadFns[ob.Fn]; !seen {
					names = append(names, ob.Fn)
				}
				deadFns[ob.Fn] = name
			}
		}
		sort.Strings(names)
		for _, fn := range names {
			msg := "part of " + fn + " is unreachable in the model (e.g. " + deadFns[fn] + "): obligations about that part hold vacuously"
			notes = append(notes, msg)
			if *update || *verbose {
				fmt.Println("NOTE dead-code-in-model: " + msg)
			}
		}
	}

	// bounded stand-ins
	var standins []map[string]interface{}
	for _, b := range spec.Bounded {
		t0 := time.Now()
		cmd := exec.Command("bash", "-c", b.Cmd)
		cmd.Dir = *root
		cmd.Env = append(os.Environ(), "VERIF_TIER="+*tier, fmt.Sprintf("VERIF_SEED=%d", seed), "VERIF_REPO="+*repo)
		out, err := cmd.CombinedOutput()
		ok := err == nil
		standins = append(standins, map[string]interface{}{"name": b.Name, "bound": b.Bound, "label": "bounded", "passed": ok, "wall_s": time.Since(t0).Seconds(), "output_tail": tail(string(out), 600)})
		if !ok {
			o := &Obligation{Name: "bounded:" + b.Name, Kind: "bounded", Status: "refuted", Output: tail(string(out), 4000)}
			violations = append(violations, violation{ob: o, reason: "bounded-standin-failed"})
		}
	}

	// report
	exit := 0
	replayDir := filepath.Join(*root, "replays", id)
	for _, k := range dedupKnown(knownHit) {
		fmt.Printf("KNOWN-FINDING: property=%s %s (%s)\n", id, k.What, k.Obligation)
	}
	for _, v := range violations {
		exit = 1
		os.MkdirAll(replayDir, 0o755)
		path := filepath.Join(replayDir, sanitize(v.ob.Name)+".json")
		rep := map[string]interface{}{
			"property": id, "obligation": v.ob.Name, "kind": v.ob.Kind, "status": v.ob.Status, "reason": v.reason,
			"description": v.ob.Desc, "solver": v.ob.Solver, "solver_output": v.ob.Output, "position": v.ob.Pos.String(),
		}
		reproduced := false
		if v.ob.Model != "" {
			rep["model"] = v.ob.Model
		}
		if v.ob.Status == "refuted" || v.ob.Status == "unknown" {
			if drv := findDriver(spec.Replays, v.ob.Name); drv != "" {
				ok, out := runReplayDriver(*root, *repo, drv, v.ob, path)
				rep["replay_driver"] = drv
				rep["replay_output"] = out
				reproduced = ok
			}
		}
		if v.reason == "bounded-standin-failed" {
			// the stand-in runs the real function: its output names the failing input
			reproduced = true
		}
		rep["reproduced_on_real_code"] = reproduced
		d, _ := json.MarshalIndent(rep, "", " ")
		os.WriteFile(path, d, 0o644)
		suffix := ""
		if !reproduced {
			suffix = " no-failing-input-found"
		}
		fmt.Printf("VIOLATION property=%s replay=%s obligation=%s%s\n", id, path, v.ob.Name, suffix)
		if *verbose {
			fmt.Println("   ", v.ob.Desc)
			fmt.Println("   ", firstLines(v.ob.Output, 12))
		}
	}
	// thorough tier: the replay drivers of the defects that were found and repaired are run against the current tree.
	// Each driver reproduces one concrete failing input on the real code; a driver that reproduces its failure again
	// is reported under the obligation that first exposed the defect.
	var probeOut []map[string]interface{}
	if *tier == "thorough" {
		for _, pr := range spec.ReplayProbes {
			if len(pr) != 2 {
				continue
			}
			drv, obName := pr[0], pr[1]
			ob := &Obligation{Name: obName, Kind: obKindFromName(obName), Status: "replayed"}
			os.MkdirAll(replayDir, 0o755)
			path := filepath.Join(replayDir, "probe_"+sanitize(drv)+".json")
			ok, out := runReplayDriver(*root, *repo, drv, ob, path)
			probeOut = append(probeOut, map[string]interface{}{"driver": drv, "obligation": obName, "reproduced": ok})
			if ok {
				exit = 1
				rep := map[string]interface{}{"property": id, "obligation": obName, "reason": "the replay driver of a repaired defect reproduces its failure on the current tree",
					"replay_driver": drv, "replay_output": out, "reproduced_on_real_code": true}
				d, _ := json.MarshalIndent(rep, "", " ")
				os.WriteFile(path, d, 0o644)
				fmt.Printf("VIOLATION property=%s replay=%s obligation=%s\n", id, path, obName)
			}
		}
	}
	// evidence
	var funcs []map[string]interface{}
	assumedSet := map[string]bool{}
	for _, r := range results {
		n, d := 0, 0
		for _, ob := range r.Obls {
			if claimed[ob.Name] {
				n++
				if ob.Status == "discharged" {
					d++
				}
			}
		}
		funcs = append(funcs, map[string]interface{}{"function": r.Fn, "ssa_instructions": r.Instrs, "has_contract": r.Contract, "claimed_obligations": n, "discharged": d, "proved": n > 0 && n == d})
		for _, a := range r.Assumed {
			assumedSet[a] = true
		}
	}
	var assumed []string
	for a := range assumedSet {
		assumed = append(assumed, a)
	}
	sort.Strings(assumed)
	var samples []map[string]interface{}
	for i, po := range perOb {
		if i%((len(perOb)/3)+1) == 0 && len(samples) < 3 {
			ob := byName[po["name"].(string)]
			samples = append(samples, map[string]interface{}{"obligation": ob.Name, "kind": ob.Kind, "description": ob.Desc, "negated_goal": trunc2(ob.Cond, 400), "path_condition": trunc2(ob.Reach, 200), "solver": ob.Solver, "ms": ob.Ms})
		}
	}
	solverCount := map[string]int{}
	var solverMs int64
	for _, po := range perOb {
		solverCount[po["solver"].(string)]++
		solverMs += po["ms"].(int64)
	}
	var kfOut []string
	for _, k := range dedupKnown(knownHit) {
		kfOut = append(kfOut, k.Obligation+": "+k.What)
	}
	trusted := []string{
		"govc (SSA -> guarded commands -> VC) and go/ssa, go/types of golang.org/x/tools v0.29.0",
		"z3 5.1.0, z3 4.8.12, cvc5 1.0 (first definitive answer wins)",
		"meta-lemmas L (lockset), I (monitor invariants), C (channel capacity) of DESIGN.md §2.5",
		"integers: unsigned exact modulo 2^N, signed unbounded; float64 as reals; strings uninterpreted",
		"external calls do not write Vouch-owned heap; stub table and 'assumes call' clauses listed under assumptions",
	}
	cov := map[string]interface{}{
		"obligations": total, "discharged": discharged,
		"checker_cmd":              fmt.Sprintf("/verif/bin/govc check --tier %s %s", *tier, id),
		"trusted_base":             trusted,
		"functions_under_contract": funcs,
		"per_obligation":           perOb,
		"back_ends":                solverCount,
		"solver_ms_total":          solverMs,
		"vacuity_checks":           covers,
		"known_findings":           kfOut,
		"undecided_new":            undecidedNew,
		"retired":                  retired,
		"replay_probes":            probeOut,
		"bounded_standins":         standins,
		"not_decided":              spec.NotDecided,
		"notes":                    notes,
		"samples":                  samples,
	}
	if total == 0 || len(samples) == 0 {
		cov["samples"] = []map[string]interface{}{{"note": "no claimed obligation"}}
	}
	ev := map[string]interface{}{
		"property_id": id, "tier": *tier, "seed": seed, "level": "proof", "coverage": cov,
		"assumptions": append(append([]string{}, spec.Assumes...), assumed...),
		"wall_s":      time.Since(start).Seconds(), "violations": len(violations),
	}
	os.MkdirAll(filepath.Join(*root, "evidence"), 0o755)
	d, _ := json.MarshalIndent(ev, "", " ")
	os.WriteFile(filepath.Join(*root, "evidence", id+".json"), d, 0o644)
	fmt.Printf("%s: %d/%d claimed obligations discharged, %d violations, %d known findings, %d undecided-new, %d retired, %.1fs\n", id, discharged, total, len(violations), len(dedupKnown(knownHit)), len(undecidedNew), len(retired), time.Since(start).Seconds())
	if *verbose {
		for _, u := range undecidedNew {
			fmt.Println("   undecided-new:", u)
		}
		for _, n := range notes {
			fmt.Println("   note:", n)
		}
	}
	os.Exit(exit)
}

func dedupKnown(ks []KnownFinding) []KnownFinding {
	seen := map[string]bool{}
	var out []KnownFinding
	for _, k := range ks {
		if !seen[k.What] {
			seen[k.What] = true
			out = append(out, k)
		}
	}
	return out
}

func trunc2(s string, n int) string {
	if len(s) > n {
		return s[:n] + "…"
	}
	return s
}

func tail(s string, n int) string {
	if len(s) > n {
		return s[len(s)-n:]
	}
	return s
}

var obNameRe = regexp.MustCompile(`#([a-z0-9\-]+)`)

func obKindFromName(name string) string {
	m := obNameRe.FindStringSubmatch(name)
	if m == nil {
		return ""
	}
	return m[1]
}

func findDriver(replays map[string]string, name string) string {
	for pat, drv := range replays {
		if ok, _ := regexp.MatchString(pat, name); ok {
			return drv
		}
	}
	return ""
}

// runReplayDriver runs /verif/replay/<driver> with the obligation and model; the driver replays the
// counterexample on the real code (go test -overlay) and exits 0 iff the failure reproduces.
func runReplayDriver(root, repo, driver string, ob *Obligation, replayPath string) (bool, string) {
	modelFile := replayPath + ".model"
	os.WriteFile(modelFile, []byte(ob.Model), 0o644)
	defer os.Remove(modelFile)
	cmd := exec.Command(filepath.Join(root, "replay", driver), ob.Name, modelFile, repo)
	cmd.Dir = root
	out, err := cmd.CombinedOutput()
	return err == nil, tail(string(out), 6000)
}

// supportKind: obligations whose conclusion is assumed by the rest of the function once they have been asserted.
func supportKind(k string) bool {
	switch k {
	case "inv-entry", "inv-preserved", "pre", "lockinv", "loop-frame", "frame-heap", "frame-object":
		// (a modifies clause is what callers forget at a call: an unproved frame makes their proofs unsound)
		return true
	}
	return false
}
