package main

import (
	"fmt"
	"go/constant"
	"go/types"
	"strconv"
	"strings"

	"golang.org/x/tools/go/packages"
	"golang.org/x/tools/go/ssa"
)

type TVal struct {
	Val
	Type  types.Type
	IsNil bool
	Snap  *State // reference evaluated under old(): dereferences read this state
}

func (c *EvalCtx) fbase() string {
	if c.freshBase != "" {
		return c.freshBase
	}
	return "AllocBase"
}

func (c *EvalCtx) stOf(v TVal) *State {
	if v.Snap != nil {
		return v.Snap
	}
	return c.st
}

type EvalCtx struct {
	fr    *FuncRun
	f     *Frame
	st    *State
	old   *State
	pkg   *packages.Package
	binds map[string]TVal
	errs  []string
	depth int
	// freshBase: objects whose root is above this allocation mark count as fresh() (AllocBase when a function is
	// verified; the allocation mark at the call when a callee's contract is applied)
	freshBase string
	inTrigger bool // evaluating a :pattern term: no boolean connectives allowed
	// pol: +1 the clause is assumed (facts), -1 it is asserted (goals), 0 unknown. Used to drop the
	// machine-range guard of unsigned bound variables in assumed universals (sound because values of
	// unsigned types are always in range) which keeps instantiation independent of range facts.
	pol int
	// calleeCounts: when the postcondition of a callee is assumed at a call, calls(X) and sends() in it are the
	// callee's own counts (fresh values; the caller's counters are advanced by them afterwards)
	calleeCounts map[string]string
}

func (c *EvalCtx) errf(format string, args ...interface{}) {
	c.errs = append(c.errs, fmt.Sprintf(format, args...))
}

func (c *EvalCtx) with(binds map[string]TVal) *EvalCtx {
	n := *c
	n.binds = map[string]TVal{}
	for k, v := range c.binds {
		n.binds[k] = v
	}
	for k, v := range binds {
		n.binds[k] = v
	}
	return &n
}

// resolveType parses a type expression in the scope of pkg.
func resolveType(pkg *packages.Package, text string) types.Type {
	text = strings.TrimSpace(text)
	switch text {
	case "", "int":
		return types.Typ[types.Int]
	case "bool":
		return types.Typ[types.Bool]
	case "string":
		return types.Typ[types.String]
	case "uint64":
		return types.Typ[types.Uint64]
	case "int64":
		return types.Typ[types.Int64]
	case "uint8", "byte":
		return types.Typ[types.Uint8]
	case "float64":
		return types.Typ[types.Float64]
	case "error":
		return types.Universe.Lookup("error").Type()
	}
	if strings.HasPrefix(text, "*") {
		if t := resolveType(pkg, text[1:]); t != nil {
			return types.NewPointer(t)
		}
		return nil
	}
	if strings.HasPrefix(text, "[]") {
		if t := resolveType(pkg, text[2:]); t != nil {
			return types.NewSlice(t)
		}
		return nil
	}
	if strings.HasPrefix(text, "map[") {
		d := 0
		for i := 3; i < len(text); i++ {
			if text[i] == '[' {
				d++
			} else if text[i] == ']' {
				d--
				if d == 0 {
					k := resolveType(pkg, text[4:i])
					v := resolveType(pkg, text[i+1:])
					if k != nil && v != nil {
						return types.NewMap(k, v)
					}
					return nil
				}
			}
		}
		return nil
	}
	if i := strings.Index(text, "."); i >= 0 {
		pn, tn := text[:i], text[i+1:]
		if p := findImportWith(pkg, pn, tn); p != nil {
			if o := p.Scope().Lookup(tn); o != nil {
				return o.Type()
			}
		}
		return nil
	}
	if pkg != nil {
		if o := pkg.Types.Scope().Lookup(text); o != nil {
			if _, ok := o.(*types.TypeName); ok {
				return o.Type()
			}
		}
	}
	return nil
}

func findImport(pkg *packages.Package, name string) *types.Package {
	return findImportWith(pkg, name, "")
}

// findImportWith finds the package known as `name` (preferring the package's own imports, then the
// closest transitive import) that declares `member` (if given).
func findImportWith(pkg *packages.Package, name, member string) *types.Package {
	if pkg == nil {
		return nil
	}
	has := func(p *types.Package) bool { return member == "" || p.Scope().Lookup(member) != nil }
	search := func(root *types.Package, _ int) *types.Package {
		// breadth first over the import graph: the closest package with that name
		seen := map[*types.Package]bool{root: true}
		level := []*types.Package{root}
		for d := 0; d < 5 && len(level) > 0; d++ {
			var next []*types.Package
			for _, p := range level {
				for _, im := range p.Imports() {
					if im.Name() == name && has(im) {
						return im
					}
					if !seen[im] {
						seen[im] = true
						next = append(next, im)
					}
				}
			}
			level = next
		}
		return nil
	}
	// the name as the package's own files see it (alias, or the imported package's name)
	for _, f := range pkg.Syntax {
		for _, is := range f.Imports {
			path, _ := strconv.Unquote(is.Path.Value)
			ip, ok := pkg.Imports[path]
			if !ok || ip.Types == nil {
				continue
			}
			local := ip.Types.Name()
			if is.Name != nil {
				local = is.Name.Name
			}
			if local == name && has(ip.Types) {
				return ip.Types
			}
		}
	}
	return search(pkg.Types, 0)
}

func (c *EvalCtx) boolTerm(e *Expr) string {
	v := c.eval(e)
	if v.S != sBool {
		c.errf("boolean expected in %s (got sort %s)", exprDebug(e), v.S)
		return c.fr.fresh(sBool, "badbool")
	}
	return v.T
}

func exprDebug(e *Expr) string {
	if e == nil {
		return "<nil>"
	}
	switch e.Op {
	case "ident", "num", "str":
		return e.Name
	case "sel":
		return exprDebug(e.Args[0]) + "." + e.Name
	case "index":
		return exprDebug(e.Args[0]) + "[" + exprDebug(e.Args[1]) + "]"
	case "call":
		var as []string
		for _, a := range e.Args {
			as = append(as, exprDebug(a))
		}
		return e.Name + "(" + strings.Join(as, ", ") + ")"
	case "binary":
		return "(" + exprDebug(e.Args[0]) + " " + e.Name + " " + exprDebug(e.Args[1]) + ")"
	case "unary":
		return e.Name + exprDebug(e.Args[0])
	case "cond":
		return exprDebug(e.Args[0]) + " ? " + exprDebug(e.Args[1]) + " : " + exprDebug(e.Args[2])
	case "forall", "exists":
		return e.Op + " … :: " + exprDebug(e.Args[0])
	}
	return e.Op
}

func (c *EvalCtx) mk(t string, s string, typ types.Type) TVal {
	return TVal{Val: Val{T: t, S: s}, Type: typ}
}

func (c *EvalCtx) eval(e *Expr) TVal {
	fr := c.fr
	w := fr.w
	switch e.Op {
	case "num":
		if strings.Contains(e.Name, ".") {
			return c.mk(e.Name, sReal, types.Typ[types.Float64])
		}
		if strings.HasPrefix(e.Name, "0x") {
			n, _ := strconv.ParseUint(e.Name[2:], 16, 64)
			return c.mk(fmt.Sprintf("%d", n), sInt, types.Typ[types.Int])
		}
		return c.mk(e.Name, sInt, types.Typ[types.Int])
	case "str":
		return c.mk(w.StrLit(e.Name), sInt, types.Typ[types.String])
	case "ident":
		return c.evalIdent(e.Name)
	case "sel":
		return c.evalSel(e)
	case "index":
		return c.evalIndex(e)
	case "call":
		return c.evalCall(e)
	case "unary":
		if e.Name == "!" {
			n := *c
			n.pol = -c.pol
			n.errs = nil
			v := n.eval(e.Args[0])
			c.errs = append(c.errs, n.errs...)
			return c.mk(not(v.T), sBool, types.Typ[types.Bool])
		}
		v := c.eval(e.Args[0])
		return c.mk("(- "+v.T+")", v.S, v.Type)
	case "cond":
		nc := *c
		nc.pol = 0
		nc.errs = nil
		cnd := nc.boolTerm(e.Args[0])
		c.errs = append(c.errs, nc.errs...)
		a, b := c.eval(e.Args[1]), c.eval(e.Args[2])
		a, b = c.unifyNil(a, b)
		return TVal{Val: Val{T: fr.def(a.S, ite(cnd, a.T, b.T)), S: a.S}, Type: a.Type}
	case "forall", "exists":
		binds := map[string]TVal{}
		var decl []string
		var ranges []string
		for _, v := range e.Vars {
			t := resolveType(c.pkg, v.Type)
			if t == nil {
				c.errf("unknown type %q for bound variable %s", v.Type, v.Name)
				t = types.Typ[types.Int]
			}
			fr.nfresh++
			n := fmt.Sprintf("bv!%s!%d", sanitize(v.Name), fr.nfresh)
			srt := w.SortOf(t)
			decl = append(decl, "("+n+" "+srt+")")
			binds[v.Name] = TVal{Val: Val{T: n, S: srt}, Type: t}
			if bits, ok := isUnsigned(t); ok {
				ranges = append(ranges, "(<= 0 "+n+")", "(< "+n+" "+pow2(bits)+")")
			}
		}
		sub := c.with(binds)
		body := sub.boolTerm(e.Args[0])
		c.errs = append(c.errs, sub.errs...)
		if (e.Op == "forall" && c.pol > 0) || (e.Op == "exists" && c.pol < 0) {
			ranges = nil
		}
		pats := ""
		for _, group := range e.Trig {
			var ts []string
			for _, te := range group {
				sub.inTrigger = true
				tv := sub.eval(te)
				sub.inTrigger = false
				ts = append(ts, tv.T)
			}
			pats += " :pattern (" + strings.Join(ts, " ") + ")"
		}
		c.errs = append(c.errs, sub.errs...)
		wrap := func(b string) string {
			if pats == "" {
				return b
			}
			return "(! " + b + pats + ")"
		}
		if e.Op == "forall" {
			if len(ranges) > 0 {
				body = implies(and(ranges...), body)
			}
			return c.mk("(forall ("+strings.Join(decl, " ")+") "+wrap(body)+")", sBool, types.Typ[types.Bool])
		}
		if len(ranges) > 0 {
			body = and(append(ranges, body)...)
		}
		return c.mk("(exists ("+strings.Join(decl, " ")+") "+wrap(body)+")", sBool, types.Typ[types.Bool])
	case "binary":
		return c.evalBinary(e)
	}
	c.errf("unsupported expression %s", e.Op)
	return c.mk(fr.fresh(sInt, "bad"), sInt, nil)
}

func (c *EvalCtx) unifyNil(a, b TVal) (TVal, TVal) {
	if a.IsNil && !b.IsNil {
		a = c.nilOf(b)
	}
	if b.IsNil && !a.IsNil {
		b = c.nilOf(a)
	}
	return a, b
}

func (c *EvalCtx) nilOf(like TVal) TVal {
	switch like.S {
	case sIface:
		return TVal{Val: Val{T: "(mk-iface 0 0)", S: sIface}, Type: like.Type}
	case sSlice:
		return TVal{Val: Val{T: "(mk-slice 0 0 0 0)", S: sSlice}, Type: like.Type}
	}
	return TVal{Val: Val{T: "0", S: sInt}, Type: like.Type}
}

func (c *EvalCtx) evalBinary(e *Expr) TVal {
	fr := c.fr
	tb := types.Typ[types.Bool]
	switch e.Name {
	case "&&":
		return c.mk(and(c.boolTerm(e.Args[0]), c.boolTerm(e.Args[1])), sBool, tb)
	case "||":
		return c.mk(or(c.boolTerm(e.Args[0]), c.boolTerm(e.Args[1])), sBool, tb)
	case "==>":
		n := *c
		n.pol = -c.pol
		n.errs = nil
		l := n.boolTerm(e.Args[0])
		c.errs = append(c.errs, n.errs...)
		return c.mk(implies(l, c.boolTerm(e.Args[1])), sBool, tb)
	case "<==>":
		n := *c
		n.pol = 0
		n.errs = nil
		l, r := n.boolTerm(e.Args[0]), n.boolTerm(e.Args[1])
		c.errs = append(c.errs, n.errs...)
		return c.mk(eq(l, r), sBool, tb)
	}
	a, b := c.eval(e.Args[0]), c.eval(e.Args[1])
	switch e.Name {
	case "==", "!=":
		a, b = c.unifyNil(a, b)
		var t string
		if a.S == sSlice && (a.IsNil || b.IsNil) || (a.S == sSlice && (e.Args[0].Name == "nil" || e.Args[1].Name == "nil")) {
			// slice == nil compares the backing reference
			other := a
			if e.Args[0].Name == "nil" {
				other = b
			}
			t = eq("(s-arr "+other.T+")", "0")
		} else {
			if a.S != b.S {
				c.errf("sort mismatch in %s: %s vs %s", exprDebug(e), a.S, b.S)
				return c.mk(fr.fresh(sBool, "bad"), sBool, tb)
			}
			t = eq(a.T, b.T)
		}
		if e.Name == "!=" {
			t = not(t)
		}
		return c.mk(t, sBool, tb)
	case "<", "<=", ">", ">=":
		return c.mk("("+e.Name+" "+a.T+" "+b.T+")", sBool, tb)
	case "+", "-", "*":
		rt := a.Type
		if rt == nil {
			rt = b.Type
		}
		return c.mk(fr.def(a.S, "("+e.Name+" "+a.T+" "+b.T+")"), a.S, rt)
	case "/":
		if a.S == sReal {
			return c.mk("(/ "+a.T+" "+b.T+")", sReal, a.Type)
		}
		return c.mk(fr.def(sInt, "(div "+a.T+" "+b.T+")"), sInt, a.Type)
	case "%":
		return c.mk(fr.def(sInt, "(mod "+a.T+" "+b.T+")"), sInt, a.Type)
	}
	c.errf("unsupported operator %s", e.Name)
	return c.mk(fr.fresh(sInt, "bad"), sInt, nil)
}

func (c *EvalCtx) evalIdent(name string) TVal {
	fr := c.fr
	if v, ok := c.binds[name]; ok {
		return v
	}
	switch name {
	case "nil":
		return TVal{Val: Val{T: "0", S: sInt}, IsNil: true}
	case "true":
		return c.mk("true", sBool, types.Typ[types.Bool])
	case "false":
		return c.mk("false", sBool, types.Typ[types.Bool])
	}
	// locals of the frame
	if c.f != nil {
		if v, ok := c.local(name); ok {
			return v
		}
	}
	// ghost cells
	if v, ok := c.st.cells[cellKey{0, "ghost:" + name}]; ok {
		return TVal{Val: v}
	}
	// nullary spec function
	if sf := fr.eng.contracts.findSpec(c.pkg, name); sf != nil && len(sf.Params) == 0 {
		return c.applySpec(sf, nil)
	}
	// package-level constant
	if c.pkg != nil {
		if o := c.pkg.Types.Scope().Lookup(name); o != nil {
			if cst, ok := o.(*types.Const); ok {
				return c.constVal(cst)
			}
		}
	}
	c.errf("unknown identifier %q", name)
	return c.mk(fr.fresh(sInt, "unbound_"+name), sInt, nil)
}

func (c *EvalCtx) constVal(cst *types.Const) TVal {
	v := c.fr.constVal(ssa.NewConst(cst.Val(), cst.Type()))
	return TVal{Val: v, Type: cst.Type()}
}

// local resolves a source-level local variable name (name#2 = second declaration).
func (c *EvalCtx) local(name string) (TVal, bool) {
	want := 1
	base := name
	if i := strings.Index(name, "#"); i >= 0 {
		base = name[:i]
		want, _ = strconv.Atoi(name[i+1:])
	}
	if base == "rangeiter" {
		// the hidden counter of a `for i := range n` loop (i itself only exists inside the body)
		base = "rangeint.iter"
	}
	n := 0
	fn := c.f.fn
	for _, b := range fn.Blocks {
		for _, ins := range b.Instrs {
			a, ok := ins.(*ssa.Alloc)
			if !ok || a.Comment != base {
				continue
			}
			n++
			if n != want {
				continue
			}
			elem := a.Type().(*types.Pointer).Elem()
			if isStaticCell(a) {
				v, ok := c.st.cells[cellKey{c.f.id, a}]
				if !ok {
					return TVal{}, false
				}
				return TVal{Val: v, Type: elem}, true
			}
			r, ok := c.f.regs[a]
			if !ok {
				return TVal{}, false
			}
			v := c.fr.load(c.st, ObjAddr{Ref: r.T, Elem: elem, NonNil: true}, elem)
			return TVal{Val: v, Type: elem}, true
		}
	}
	// a local that was renamed since the claims were taken: the contract's name is found, by position, among the
	// locals recorded then; it stands for the local at the same position now, provided the function still has the
	// same number of named locals with the same types
	if n == 0 {
		if old, ok := c.fr.eng.localAliases[funcDisplayName(fn)]; ok {
			cur := localsOf(fn)
			same := len(cur) == len(old)
			for i := 0; same && i < len(cur); i++ {
				same = cur[i].Type == old[i].Type
			}
			if same {
				k, idx := 0, -1
				for i, l := range old {
					if l.Name == base {
						k++
						if k == want {
							idx = i
						}
					}
				}
				nameTaken := false
				for _, l := range cur {
					if l.Name == base {
						nameTaken = true
					}
				}
				if idx >= 0 && !nameTaken && cur[idx].Name != base {
					c.fr.assumed[fmt.Sprintf("contract identifier %s of %s taken to be the local %s (same position and type among the function's locals as when the claims were recorded: a renaming)", base, funcDisplayName(fn), cur[idx].Name)] = true
					cnt := 0
					for j := 0; j <= idx; j++ {
						if cur[j].Name == cur[idx].Name {
							cnt++
						}
					}
					alias := cur[idx].Name
					if cnt > 1 {
						alias = fmt.Sprintf("%s#%d", alias, cnt)
					}
					return c.local(alias)
				}
			}
		}
	}
	// free variables of closures
	for _, fv := range fn.FreeVars {
		if fv.Name() == base {
			elem := fv.Type().(*types.Pointer).Elem()
			if a, ok := c.f.bind[fv]; ok {
				return TVal{Val: c.fr.load(c.st, a, elem), Type: elem}, true
			}
			if isStaticFreeVar(fv) {
				v := c.fr.load(c.st, CellAddr{Key: cellKey{c.f.id, fv}}, elem)
				return TVal{Val: v, Type: elem}, true
			}
			if r, ok := c.f.regs[fv]; ok {
				return TVal{Val: c.fr.load(c.st, ObjAddr{Ref: r.T, Elem: elem}, elem), Type: elem}, true
			}
		}
	}
	return TVal{}, false
}

func (c *EvalCtx) evalSel(e *Expr) TVal {
	fr := c.fr
	w := fr.w
	// qualified constant pkg.Name
	if e.Args[0].Op == "ident" {
		if _, bound := c.binds[e.Args[0].Name]; !bound {
			isLocal := false
			if c.f != nil {
				_, isLocal = c.local(e.Args[0].Name)
			}
			if !isLocal {
				if ip := findImport(c.pkg, e.Args[0].Name); ip != nil {
					if o := ip.Scope().Lookup(e.Name); o != nil {
						if cst, ok := o.(*types.Const); ok {
							return c.constVal(cst)
						}
						if gv, ok := o.(*types.Var); ok {
							// package-level variable of an imported package: its current value
							if sp := fr.eng.prog.Package(ip); sp != nil {
								if g := sp.Var(gv.Name()); g != nil && c.f != nil {
									gval := fr.val(c.f, c.st, g)
									return TVal{Val: fr.load(c.st, gval.Addr, gv.Type()), Type: gv.Type()}
								} else if g != nil {
									gval := fr.val(fr.topFrame, c.st, g)
									return TVal{Val: fr.load(c.st, gval.Addr, gv.Type()), Type: gv.Type()}
								}
							}
						}
					}
				}
			}
		}
	}
	base := c.eval(e.Args[0])
	if base.Type == nil {
		c.errf("cannot select %s from untyped value %s", e.Name, exprDebug(e.Args[0]))
		return c.mk(fr.fresh(sInt, "bad"), sInt, nil)
	}
	t := base.Type
	if p, ok := t.Underlying().(*types.Pointer); ok {
		st, ok := p.Elem().Underlying().(*types.Struct)
		if !ok {
			c.errf("selector on pointer to non-struct")
			return c.mk(fr.fresh(sInt, "bad"), sInt, nil)
		}
		idx, path := findField(st, e.Name)
		if idx < 0 {
			c.errf("no field %s in %s", e.Name, p.Elem())
			return c.mk(fr.fresh(sInt, "bad"), sInt, nil)
		}
		var a Addr = ObjAddr{Ref: base.T, Elem: p.Elem()}
		cur := p.Elem()
		for _, i := range path {
			a = FieldOf{Base: a, Idx: i, Struct: cur}
			cur = fieldType(cur, i)
			if pp, ok := cur.Underlying().(*types.Pointer); ok && i != path[len(path)-1] {
				v := fr.load(c.stOf(base), a, cur)
				a = ObjAddr{Ref: v.T, Elem: pp.Elem()}
				cur = pp.Elem()
			}
		}
		v := fr.load(c.stOf(base), a, cur)
		return TVal{Val: v, Type: cur, Snap: base.Snap}
	}
	if st, ok := t.Underlying().(*types.Struct); ok {
		idx, _ := findField(st, e.Name)
		if idx < 0 {
			c.errf("no field %s in %s", e.Name, t)
			return c.mk(fr.fresh(sInt, "bad"), sInt, nil)
		}
		info := w.structInfoOf(t)
		ft := st.Field(idx).Type()
		return TVal{Val: Val{T: fr.def(w.SortOf(ft), fmt.Sprintf("(f%d_%s %s)", idx, info.name, base.T)), S: w.SortOf(ft)}, Type: ft}
	}
	c.errf("selector %s on %s", e.Name, t)
	return c.mk(fr.fresh(sInt, "bad"), sInt, nil)
}

// findField finds a (possibly promoted through embedding) field.
func findField(st *types.Struct, name string) (int, []int) {
	for i := 0; i < st.NumFields(); i++ {
		if st.Field(i).Name() == name {
			return i, []int{i}
		}
	}
	for i := 0; i < st.NumFields(); i++ {
		f := st.Field(i)
		if !f.Embedded() {
			continue
		}
		ft := f.Type()
		if p, ok := ft.Underlying().(*types.Pointer); ok {
			ft = p.Elem()
		}
		if est, ok := ft.Underlying().(*types.Struct); ok {
			if j, path := findField(est, name); j >= 0 {
				return i, append([]int{i}, path...)
			}
		}
	}
	return -1, nil
}

func (c *EvalCtx) evalIndex(e *Expr) TVal {
	fr := c.fr
	w := fr.w
	base := c.eval(e.Args[0])
	idx := c.eval(e.Args[1])
	if base.Type == nil && strings.HasPrefix(base.S, "(Array ") {
		// ghost array: (Array K V)
		inner := base.S[len("(Array ") : len(base.S)-1]
		j := skipSexp(inner, 0)
		vs := strings.TrimSpace(inner[j:])
		return TVal{Val: Val{T: fr.def(vs, sel(base.T, idx.T)), S: vs}}
	}
	if base.Type == nil {
		c.errf("index on untyped value")
		return c.mk(fr.fresh(sInt, "bad"), sInt, nil)
	}
	switch t := base.Type.Underlying().(type) {
	case *types.Slice:
		h := w.ElemHeap(t.Elem())
		srt := w.SortOf(t.Elem())
		v := fr.def(srt, w.At(t.Elem(), sel(fr.heapCur(c.stOf(base), h), "(s-arr "+base.T+")"), "(s-off "+base.T+")", idx.T))
		return TVal{Val: Val{T: v, S: srt}, Type: t.Elem(), Snap: base.Snap}
	case *types.Map:
		vs := w.SortOf(t.Elem())
		dom := fr.heapCur(c.stOf(base), w.MapDomHeap(t))
		val := fr.heapCur(c.stOf(base), w.MapValHeap(t))
		in := and(not(eq(base.T, "0")), sel(sel(dom, base.T), idx.T))
		v := fr.def(vs, ite(in, sel(sel(val, base.T), idx.T), w.Zero(t.Elem())))
		return TVal{Val: Val{T: v, S: vs}, Type: t.Elem(), Snap: base.Snap}
	case *types.Array:
		srt := w.SortOf(t.Elem())
		return TVal{Val: Val{T: fr.def(srt, sel(base.T, idx.T)), S: srt}, Type: t.Elem()}
	}
	c.errf("index on %s", base.Type)
	return c.mk(fr.fresh(sInt, "bad"), sInt, nil)
}

func (c *EvalCtx) evalCall(e *Expr) TVal {
	fr := c.fr
	w := fr.w
	tb := types.Typ[types.Bool]
	ti := types.Typ[types.Int]
	switch e.Name {
	case "old":
		if c.old == nil {
			c.errf("old() not available here")
			return c.eval(e.Args[0])
		}
		n := *c
		n.st = c.old
		n.errs = nil
		v := n.eval(e.Args[0])
		c.errs = append(c.errs, n.errs...)
		v.Snap = c.old
		return v
	case "len":
		v := c.eval(e.Args[0])
		if v.Type == nil {
			c.errf("len of untyped")
			return c.mk("0", sInt, ti)
		}
		switch v.Type.Underlying().(type) {
		case *types.Slice:
			return c.mk("(s-len "+v.T+")", sInt, ti)
		case *types.Map:
			return c.mk(ite(eq(v.T, "0"), "0", sel(fr.heapCur(c.stOf(v), w.MapLenHeap()), v.T)), sInt, ti)
		case *types.Basic:
			return c.mk("(strlen "+v.T+")", sInt, ti)
		case *types.Array:
			return c.mk(fmt.Sprintf("%d", v.Type.Underlying().(*types.Array).Len()), sInt, ti)
		}
	case "cap":
		v := c.eval(e.Args[0])
		return c.mk("(s-cap "+v.T+")", sInt, ti)
	case "samearray":
		// samearray(a, b): the slices a and b share their backing array
		a, b := c.eval(e.Args[0]), c.eval(e.Args[1])
		return c.mk("(= (s-arr "+a.T+") (s-arr "+b.T+"))", sBool, tb)
	case "in":
		m := c.eval(e.Args[0])
		k := c.eval(e.Args[1])
		if m.Type == nil {
			// (the map expression did not resolve, e.g. it names a local that no longer exists)
			c.errf("in() on an expression without a type")
			return c.mk("false", sBool, tb)
		}
		mt, ok := m.Type.Underlying().(*types.Map)
		if !ok {
			c.errf("in() on non-map")
			return c.mk("false", sBool, tb)
		}
		dom := fr.heapCur(c.stOf(m), w.MapDomHeap(mt))
		if c.inTrigger {
			return c.mk(sel(sel(dom, m.T), k.T), sBool, tb)
		}
		return c.mk(and(not(eq(m.T, "0")), sel(sel(dom, m.T), k.T)), sBool, tb)
	case "substr":
		// substr(s, lo, hi): the term the engine uses for s[lo:hi] on strings
		sv, lo, hi := c.eval(e.Args[0]), c.eval(e.Args[1]), c.eval(e.Args[2])
		w.declFun("substr", "(declare-fun substr (Int Int Int) Int)")
		return c.mk("(substr "+sv.T+" "+lo.T+" "+hi.T+")", sInt, types.Typ[types.String])
	case "strindex", "strlastindex":
		sv, sub := c.eval(e.Args[0]), c.eval(e.Args[1])
		n := map[string]string{"strindex": "str_Index", "strlastindex": "str_LastIndex"}[e.Name]
		w.declFun(n, fmt.Sprintf("(declare-fun %s (Int Int) Int)", n))
		return c.mk("("+n+" "+sv.T+" "+sub.T+")", sInt, ti)
	case "implements":
		// implements(x, "T"): the dynamic type of the non-nil interface value x implements interface T
		// (the same uninterpreted relation the engine uses for x.(T))
		v := c.eval(e.Args[0])
		if len(e.Args) == 2 && e.Args[1].Op == "str" {
			if t := resolveType(c.pkg, e.Args[1].Name); t != nil {
				w.declFun("implements", "(declare-fun implements (Int Int) Bool)")
				return c.mk(fmt.Sprintf("(and (not (= (i-typ %s) 0)) (implements (i-typ %s) %d))", v.T, v.T, w.TypeID(t)), sBool, tb)
			}
		}
		c.errf("implements: cannot resolve type")
		return c.mk("false", sBool, tb)
	case "strcontains", "strhasprefix", "strhassuffix":
		// the predicates the engine uses for strings.Contains / HasPrefix / HasSuffix
		sv, sub := c.eval(e.Args[0]), c.eval(e.Args[1])
		n := map[string]string{"strcontains": "str_Contains", "strhasprefix": "str_HasPrefix", "strhassuffix": "str_HasSuffix"}[e.Name]
		w.declFun(n, fmt.Sprintf("(declare-fun %s (Int Int) Bool)", n))
		return c.mk("("+n+" "+sv.T+" "+sub.T+")", sBool, tb)
	case "errtext":
		// errtext(err): what err.Error() returns
		v := c.eval(e.Args[0])
		w.declFun("err_text", "(declare-fun err_text (Iface) Int)")
		return c.mk("(err_text "+v.T+")", sInt, types.Typ[types.String])
	case "u64":
		// u64(x): x reduced to the 64-bit unsigned range, as Go's uint64 arithmetic does
		v := c.eval(e.Args[0])
		return c.mk("(mod "+v.T+" 18446744073709551616)", sInt, v.Type)
	case "nolocks":
		// the calling goroutine holds no lock at all
		return c.mk("(= "+fr.heapCur(c.st, w.HeldHeap())+" ((as const (Array Int Int)) 0))", sBool, tb)
	case "held", "wheld", "rheld", "unheld":
		a := c.mutexAddrOf(e.Args[0])
		h := sel(fr.heapCur(c.st, w.HeldHeap()), a)
		switch e.Name {
		case "held":
			return c.mk(not(eq(h, "0")), sBool, tb)
		case "wheld":
			return c.mk(eq(h, "(- 1)"), sBool, tb)
		case "rheld":
			return c.mk(eq(h, "1"), sBool, tb)
		default:
			return c.mk(eq(h, "0"), sBool, tb)
		}
	case "calls", "started":
		// calls(X): the number of calls of X; started(X): the number of goroutines started with X
		name := e.Args[0].Name
		if e.Args[0].Op == "sel" {
			name = exprString(e.Args[0])
		}
		name = e.Name + ":" + name
		if c.calleeCounts != nil {
			if v, ok := c.calleeCounts[name]; ok {
				return c.mk(v, sInt, ti)
			}
			return c.mk("0", sInt, ti)
		}
		if v, ok := c.st.cells[cellKey{0, name}]; ok {
			return c.mk(v.T, sInt, ti)
		}
		return c.mk("0", sInt, ti)
	case "sends":
		if c.calleeCounts != nil {
			if v, ok := c.calleeCounts["sends"]; ok {
				return c.mk(v, sInt, ti)
			}
			return c.mk("0", sInt, ti)
		}
		if v, ok := c.st.cells[cellKey{0, "sends"}]; ok {
			return c.mk(v.T, sInt, ti)
		}
		return c.mk("0", sInt, ti)
	case "visited":
		// visited(k) or visited(N, k): the set of keys already delivered by the N-th map range
		n := 1
		kexpr := e.Args[0]
		if len(e.Args) == 2 {
			n, _ = strconv.Atoi(e.Args[0].Name)
			kexpr = e.Args[1]
		}
		k := c.eval(kexpr)
		if c.f != nil {
			cnt := 0
			for _, b := range c.f.fn.Blocks {
				for _, ins := range b.Instrs {
					if r, ok := ins.(*ssa.Range); ok {
						if _, isMap := r.X.Type().Underlying().(*types.Map); !isMap {
							continue
						}
						cnt++
						if cnt == n {
							if v, ok := c.st.cells[cellKey{c.f.id, r}]; ok {
								return c.mk(sel(v.T, k.T), sBool, tb)
							}
						}
					}
				}
			}
		}
		c.errf("visited(): no such map range")
		return c.mk("false", sBool, tb)
	case "nvisited":
		n := 1
		if len(e.Args) == 1 {
			n, _ = strconv.Atoi(e.Args[0].Name)
		}
		if c.f != nil {
			cnt := 0
			for _, b := range c.f.fn.Blocks {
				for _, ins := range b.Instrs {
					if r, ok := ins.(*ssa.Range); ok {
						if _, isMap := r.X.Type().Underlying().(*types.Map); !isMap {
							continue
						}
						cnt++
						if cnt == n {
							if v, ok := c.st.cells[cellKey{c.f.id, rangeCount{r}}]; ok {
								return c.mk(v.T, sInt, ti)
							}
						}
					}
				}
			}
		}
		c.errf("nvisited(): no such map range")
		return c.mk("0", sInt, ti)
	case "inloop":
		// inloop(N): the function returned from inside the body of its N-th loop
		if v, ok := c.st.cells[cellKey{0, "inloop:" + e.Args[0].Name}]; ok {
			return c.mk(v.T, sBool, tb)
		}
		return c.mk("false", sBool, tb)
	case "sprintf":
		// the same term the fmt.Sprintf stub builds: format literal and boxed arguments
		f0 := c.eval(e.Args[0])
		var elems []string
		for _, a := range e.Args[1:] {
			av := c.eval(a)
			if av.Type == nil {
				c.errf("sprintf argument %s is untyped", exprDebug(a))
				continue
			}
			elems = append(elems, fr.makeInterface(c.st, av.Val, av.Type).T)
		}
		return c.mk(fr.sprintfTerm(f0.T, elems), sInt, types.Typ[types.String])
	case "ns":
		// integer nanoseconds of a time.Time value (the model used by the time stubs)
		v := c.eval(e.Args[0])
		if v.Type == nil {
			c.errf("ns() of untyped value")
			return c.mk("0", sInt, ti)
		}
		w.declFun("time_ns", fmt.Sprintf("(declare-fun time_ns (%s) Int)", w.SortOf(v.Type)))
		return c.mk("(time_ns "+v.T+")", sInt, ti)
	case "big":
		// mathematical value of a *big.Int
		v := c.eval(e.Args[0])
		return c.mk(sel(fr.heapCur(c.stOf(v), w.heap("BigVal", "(Array Int Int)")), v.T), sInt, ti)
	case "u256":
		// mathematical value of a *uint256.Int
		v := c.eval(e.Args[0])
		if v.Type == nil {
			c.errf("u256() of untyped value")
			return c.mk("0", sInt, ti)
		}
		pt, ok := v.Type.Underlying().(*types.Pointer)
		if !ok {
			c.errf("u256() needs a *uint256.Int")
			return c.mk("0", sInt, ti)
		}
		w.declFun("u256_of", "(declare-fun u256_of ((Array Int Int)) Int)")
		arr := fr.load(c.stOf(v), ObjAddr{Ref: v.T, Elem: pt.Elem()}, pt.Elem())
		return c.mk("(u256_of "+arr.T+")", sInt, ti)
	case "decint":
		v := c.eval(e.Args[0])
		if v.Type == nil {
			c.errf("decint() of untyped value")
			return c.mk("0", sInt, ti)
		}
		w.declFun("dec_bigint", fmt.Sprintf("(declare-fun dec_bigint (%s) Int)", w.SortOf(v.Type)))
		return c.mk("(dec_bigint "+v.T+")", sInt, ti)
	case "unixsec":
		v := c.eval(e.Args[0])
		w.declFun("time_ns", fmt.Sprintf("(declare-fun time_ns (%s) Int)", w.SortOf(v.Type)))
		return c.mk("(div (time_ns "+v.T+") 1000000000)", sInt, ti)
	case "prev":
		// prev(p): the reference p (evaluated now) viewed in the entry state: prev(p).f is the value the field had on entry
		v := c.eval(e.Args[0])
		if c.old == nil {
			c.errf("prev() not available here")
			return v
		}
		v.Snap = c.old
		return v
	case "deref":
		// deref(p): the value p points to
		v := c.eval(e.Args[0])
		if v.Type == nil {
			c.errf("deref() of untyped value")
			return c.mk("0", sInt, ti)
		}
		pt, ok := v.Type.Underlying().(*types.Pointer)
		if !ok {
			c.errf("deref() of non-pointer")
			return c.mk("0", sInt, ti)
		}
		r := fr.load(c.stOf(v), ObjAddr{Ref: v.T, Elem: pt.Elem()}, pt.Elem())
		return TVal{Val: r, Type: pt.Elem()}
	case "bitlen":
		v := c.eval(e.Args[0])
		return c.mk(sel(fr.heapCur(c.stOf(v), w.heap("BitLen", "(Array Int Int)")), "(s-arr "+v.T+")"), sInt, ti)
	case "bit":
		v := c.eval(e.Args[0])
		j := c.eval(e.Args[1])
		return c.mk(sel(sel(fr.heapCur(c.stOf(v), w.heap("BitSet", "(Array Int (Array Int Bool))")), "(s-arr "+v.T+")"), j.T), sBool, tb)
	case "fresh":
		v := c.eval(e.Args[0])
		if v.S == sSlice {
			return c.mk("(or (= (s-arr "+v.T+") 0) (> (fa_root (s-arr "+v.T+")) "+c.fbase()+"))", sBool, tb)
		}
		return c.mk("(> (fa_root "+v.T+") "+c.fbase()+")", sBool, tb)
	case "isnil":
		v := c.eval(e.Args[0])
		switch v.S {
		case sIface:
			return c.mk(eq("(i-typ "+v.T+")", "0"), sBool, tb)
		case sSlice:
			return c.mk(eq("(s-arr "+v.T+")", "0"), sBool, tb)
		}
		return c.mk(eq(v.T, "0"), sBool, tb)
	case "iszero":
		v := c.eval(e.Args[0])
		if v.Type != nil {
			return c.mk(eq(v.T, w.Zero(v.Type)), sBool, tb)
		}
		return c.mk(eq(v.T, "0"), sBool, tb)
	case "min", "max":
		a, b := c.eval(e.Args[0]), c.eval(e.Args[1])
		op := "<="
		if e.Name == "max" {
			op = ">="
		}
		return c.mk(fr.def(a.S, fmt.Sprintf("(ite (%s %s %s) %s %s)", op, a.T, b.T, a.T, b.T)), a.S, a.Type)
	case "dyntype":
		v := c.eval(e.Args[0])
		return c.mk("(i-typ "+v.T+")", sInt, ti)
	case "hastype":
		// hastype(x, "T"): the dynamic type of interface value x is exactly T
		v := c.eval(e.Args[0])
		if len(e.Args) == 2 && e.Args[1].Op == "str" {
			if t := resolveType(c.pkg, e.Args[1].Name); t != nil {
				return c.mk(fmt.Sprintf("(= (i-typ %s) %d)", v.T, w.TypeID(t)), sBool, tb)
			}
		}
		c.errf("hastype: cannot resolve type")
		return c.mk("false", sBool, tb)
	case "unbox":
		// unbox(x, "T"): the value held by interface x seen as a T (meaningful when hastype(x, "T"))
		v := c.eval(e.Args[0])
		if len(e.Args) == 2 && e.Args[1].Op == "str" {
			if t := resolveType(c.pkg, e.Args[1].Name); t != nil {
				switch t.Underlying().(type) {
				case *types.Pointer, *types.Map, *types.Chan, *types.Signature:
					return c.mk("(i-val "+v.T+")", w.SortOf(t), t)
				}
				_, ub := w.Box(t)
				return c.mk("("+ub+" (i-val "+v.T+"))", w.SortOf(t), t)
			}
		}
		c.errf("unbox: cannot resolve type")
		return c.mk("0", sInt, ti)
	case "closed":
		v := c.eval(e.Args[0])
		return c.mk(not(eq(sel(fr.heapCur(c.st, fr.chanHeap("ChanClosed")), v.T), "0")), sBool, tb)
	case "published":
		// published(m): the map m has been stored in a lock-guarded field (other goroutines can reach it)
		v := c.eval(e.Args[0])
		if !fr.eng.checkGuards {
			// publication is only tracked in runs that check the lock discipline
			return c.mk("false", sBool, tb)
		}
		return c.mk(not(eq(sel(fr.heapCur(c.st, fr.chanHeap("Published")), v.T), "0")), sBool, tb)
	case "sent", "recvd", "chancap":
		v := c.eval(e.Args[0])
		h := map[string]string{"sent": "ChanSent", "recvd": "ChanRecvd", "chancap": "ChanCap"}[e.Name]
		return c.mk(sel(fr.heapCur(c.st, fr.chanHeap(h)), v.T), sInt, ti)
	case "atomic":
		// atomic(x.f): current value of an atomic.Bool field
		a := c.mutexAddrOf(e.Args[0])
		h := w.heap("AtomicBool", "(Array Int Bool)")
		return c.mk(sel(fr.heapCur(c.st, h), a), sBool, tb)
	}
	if sf := fr.eng.contracts.findSpec(c.pkg, e.Name); sf != nil {
		var args []TVal
		for _, a := range e.Args {
			args = append(args, c.eval(a))
		}
		return c.applySpec(sf, args)
	}
	// type conversion T(x)
	if t := resolveType(c.pkg, e.Name); t != nil && len(e.Args) == 1 {
		v := c.eval(e.Args[0])
		if v.IsNil {
			v = c.nilOf(TVal{Val: Val{S: w.SortOf(t)}})
		}
		if v.S == sInt && w.SortOf(t) == sReal {
			return TVal{Val: Val{T: "(to_real " + v.T + ")", S: sReal}, Type: t}
		}
		return TVal{Val: v.Val, Type: t}
	}
	c.errf("unknown function %q", e.Name)
	return c.mk(fr.fresh(sInt, "bad"), sInt, nil)
}

// mutexAddrOf evaluates an expression like s.mu to the address of that (inline) field.
func (c *EvalCtx) mutexAddrOf(e *Expr) string {
	fr := c.fr
	if e.Op != "sel" {
		v := c.eval(e)
		return v.T
	}
	base := c.eval(e.Args[0])
	if base.Type == nil {
		c.errf("mutex base untyped")
		return "0"
	}
	p, ok := base.Type.Underlying().(*types.Pointer)
	if !ok {
		c.errf("mutex base must be a pointer to struct")
		return "0"
	}
	st, ok := p.Elem().Underlying().(*types.Struct)
	if !ok {
		c.errf("mutex base must be a pointer to struct")
		return "0"
	}
	idx, _ := findField(st, e.Name)
	if idx < 0 {
		c.errf("no field %s", e.Name)
		return "0"
	}
	ft := st.Field(idx).Type()
	fa := FieldOf{Base: ObjAddr{Ref: base.T, Elem: p.Elem()}, Idx: idx, Struct: p.Elem()}
	if isStruct(ft) {
		return fr.heapAddrTerm(fa)
	}
	// pointer-typed mutex field
	return fr.load(c.st, fa, ft).T
}

func (c *EvalCtx) applySpec(sf *SpecFunc, args []TVal) TVal {
	fr := c.fr
	w := fr.w
	rt := resolveType(sf.Pkg, sf.Result)
	if rt == nil {
		c.errf("spec %s: unknown result type %q", sf.Name, sf.Result)
		rt = types.Typ[types.Int]
	}
	if len(args) != len(sf.Params) {
		c.errf("spec %s: wrong argument count", sf.Name)
		return c.mk(fr.fresh(w.SortOf(rt), "bad"), w.SortOf(rt), rt)
	}
	if sf.Body != nil {
		if c.depth > 8 {
			c.errf("spec %s: expansion too deep", sf.Name)
			return c.mk(fr.fresh(w.SortOf(rt), "bad"), w.SortOf(rt), rt)
		}
		binds := map[string]TVal{}
		for i, p := range sf.Params {
			a := args[i]
			if pt := resolveType(sf.Pkg, p.Type); pt != nil {
				if a.IsNil {
					a = c.nilOf(TVal{Val: Val{S: w.SortOf(pt)}})
				}
				a.Type = pt
			}
			binds[p.Name] = a
		}
		sub := &EvalCtx{fr: fr, f: nil, st: c.st, old: c.old, pkg: sf.Pkg, binds: binds, depth: c.depth + 1, freshBase: c.freshBase}
		v := sub.eval(sf.Body)
		c.errs = append(c.errs, sub.errs...)
		v.Type = rt
		return v
	}
	name := fr.eng.contracts.smtName(sf)
	var ps []string
	var as []string
	for i, p := range sf.Params {
		pt := resolveType(sf.Pkg, p.Type)
		if pt == nil {
			c.errf("spec %s: unknown param type %q", sf.Name, p.Type)
			pt = types.Typ[types.Int]
		}
		ps = append(ps, w.SortOf(pt))
		a := args[i]
		if a.IsNil {
			a = c.nilOf(TVal{Val: Val{S: w.SortOf(pt)}})
		}
		as = append(as, a.T)
	}
	if _, seen := w.funDecls[name]; !seen {
		w.declFun(name, fmt.Sprintf("(declare-fun %s (%s) %s)", name, strings.Join(ps, " "), w.SortOf(rt)))
		if bits, ok := isUnsigned(rt); ok {
			var bs, ns []string
			for i, srt := range ps {
				bs = append(bs, fmt.Sprintf("(a%d %s)", i, srt))
				ns = append(ns, fmt.Sprintf("a%d", i))
			}
			app := name
			if len(ns) > 0 {
				app = "(" + name + " " + strings.Join(ns, " ") + ")"
				w.axioms = append(w.axioms, fmt.Sprintf("(assert (forall (%s) (! (and (<= 0 %s) (< %s %s)) :pattern (%s))))", strings.Join(bs, " "), app, app, pow2(bits), app))
			} else {
				w.axioms = append(w.axioms, fmt.Sprintf("(assert (and (<= 0 %s) (< %s %s)))", app, app, pow2(bits)))
			}
		}
	}
	t := name
	if len(as) > 0 {
		t = "(" + name + " " + strings.Join(as, " ") + ")"
	}
	r := TVal{Val: Val{T: fr.def(w.SortOf(rt), t), S: w.SortOf(rt)}, Type: rt}
	return r
}

var _ = constant.MakeBool
