package main

import (
	"fmt"
	"go/token"
	"go/types"
	"strings"

	"golang.org/x/tools/go/ssa"
)

const repoPrefix = "github.com/attestantio/vouch"

func (fr *FuncRun) execCall(f *Frame, st *State, c *ssa.CallCommon, res ssa.Value, pos token.Pos) Val {
	var args []Val
	for _, a := range c.Args {
		args = append(args, fr.val(f, st, a))
	}
	fnVal := fr.val(f, st, c.Value)
	return fr.callCommon(f, st, c, fnVal, args, res, pos)
}

func (fr *FuncRun) resultVal(st *State, sig *types.Signature, hint string) Val {
	return fr.havocResults(st, sig.Results(), hint)
}

func (fr *FuncRun) havocResults(st *State, res *types.Tuple, hint string) Val {
	w := fr.w
	for i := 0; i < res.Len(); i++ {
		switch res.At(i).Type().Underlying().(type) {
		case *types.Map, *types.Chan, *types.Pointer, *types.Slice, *types.Interface:
			// the call may have allocated what it returns
			fr.bumpAllocTop()
			i = res.Len()
		}
	}
	switch res.Len() {
	case 0:
		return Val{T: "0", S: sInt}
	case 1:
		t := res.At(0).Type()
		v := Val{T: fr.fresh(w.SortOf(t), hint), S: w.SortOf(t)}
		fr.rangeAssume(st, v.T, t)
		fr.existingRef(v, t)
		return v
	}
	var tup []Val
	for i := 0; i < res.Len(); i++ {
		t := res.At(i).Type()
		v := Val{T: fr.fresh(w.SortOf(t), fmt.Sprintf("%s_r%d", hint, i)), S: w.SortOf(t)}
		fr.rangeAssume(st, v.T, t)
		fr.existingRef(v, t)
		tup = append(tup, v)
	}
	return Val{Tup: tup}
}

func (fr *FuncRun) existingRefTerm(t string, typ types.Type) {
	fr.existingRef(Val{T: t}, typ)
}

// existingRef: a reference obtained from a call was allocated before now.
func (fr *FuncRun) existingRef(v Val, t types.Type) {
	if hasBound(v.T) {
		return
	}
	switch t.Underlying().(type) {
	case *types.Map, *types.Chan, *types.Pointer:
		fr.emit(fmt.Sprintf("(assert (<= (fa_root %s) %s))", v.T, fr.allocTop))
	case *types.Slice:
		fr.emit(fmt.Sprintf("(assert (<= (fa_root (s-arr %s)) %s))", v.T, fr.allocTop))
	}
}

func pkgPathOf(fn *ssa.Function) string {
	if fn.Pkg != nil {
		return fn.Pkg.Pkg.Path()
	}
	if fn.Parent() != nil {
		return pkgPathOf(fn.Parent())
	}
	if o := fn.Origin(); o != nil && o != fn {
		return pkgPathOf(o)
	}
	if fn.Object() != nil && fn.Object().Pkg() != nil {
		return fn.Object().Pkg().Path()
	}
	return ""
}

func (fr *FuncRun) callCommon(f *Frame, st *State, c *ssa.CallCommon, fnVal Val, args []Val, res ssa.Value, pos token.Pos) Val {
	name := calleeName(c)
	ord := fr.staticOrd(f.fn, c)
	fr.callOrdGlobal[name] = ord
	// call-site assertions declared in the contract of the function under verification
	fr.atCallAsserts(f, st, c, name, ord, fnVal, args, pos)
	fr.ghostUpdates(f, st, c, name, fnVal, args)
	// ghost call counter
	fr.bumpCallCount(st, name)

	var out Val
	switch {
	case c.IsInvoke():
		out = fr.callInvoke(f, st, c, name, ord, fnVal, args, pos)
	default:
		if b, ok := c.Value.(*ssa.Builtin); ok {
			out = fr.callBuiltin(f, st, c, b, args, pos)
		} else if callee := c.StaticCallee(); callee != nil {
			if _, isClo := c.Value.(*ssa.MakeClosure); isClo && fnVal.Clo != nil {
				out = fr.inlineCall(f, st, fnVal.Clo.Fn, fnVal.Clo, args, pos)
			} else {
				out = fr.callStatic(f, st, c, callee, args, pos)
			}
		} else if fnVal.Clo != nil && len(fnVal.Clo.Fn.Blocks) > 0 {
			out = fr.inlineCall(f, st, fnVal.Clo.Fn, fnVal.Clo, args, pos)
		} else {
			// dynamic call of an unknown function value
			if !(fnVal.Addr != nil) {
				fr.assertOb(st, "nil", exprText(c.Value)+"()", not(eq(fnVal.T, "0")), pos, "call of nil function")
			}
			sig := c.Signature()
			out = fr.havocResults(st, sig.Results(), "dyn_"+name)
			fr.assumed["dynamic call of function value "+name+": results unconstrained, Vouch heap unchanged"] = true
		}
	}
	fr.atCallAssumes(f, st, c, name, ord, fnVal, args, out, pos)
	return out
}

func (fr *FuncRun) bumpCallCount(st *State, name string) {
	fr.bumpCounter(st, "calls:"+name)
}

func (fr *FuncRun) bumpCounter(st *State, k string) {
	fr.touchCounter(k)
	key := cellKey{0, k}
	old, ok := st.cells[key]
	if !ok {
		old = Val{T: "0", S: sInt}
	}
	st.cells[key] = Val{T: fr.def(sInt, "(+ "+old.T+" 1)"), S: sInt}
	fr.noteCellWrite(key)
}

// interface method calls ---------------------------------------------------------

func (fr *FuncRun) callInvoke(f *Frame, st *State, c *ssa.CallCommon, name string, ord int, recv Val, args []Val, pos token.Pos) Val {
	sig := c.Signature()
	full := c.Method.FullName()
	if isNoopCallee(full, c.Method.Pkg()) {
		return fr.noopResult(st, sig, name)
	}
	fr.assertOb(st, "nil", exprText(c.Value)+"."+name+"()", not(eq("(i-typ "+recv.T+")", "0")), pos, "method call on nil interface")
	// sync.Locker etc.
	if h, ok := fr.specialInvoke(f, st, c, recv, args, pos); ok {
		return h
	}
	if ec := fr.eng.contracts.findExtern(pkgPathOf(f.fn), full); ec != nil {
		return fr.applyContract(f, st, ec, nil, c.Method, append([]Val{recv}, args...), pos, name)
	}
	// interface-level contract
	if ic := fr.eng.contracts.lookupMethod(c.Method); ic != nil {
		return fr.applyContract(f, st, ic, nil, c.Method, append([]Val{recv}, args...), pos, name)
	}
	out := fr.havocResults(st, sig.Results(), name)
	fr.assumed["interface call "+shortMethodName(c.Method)+": results unconstrained unless an 'assumes call' clause applies; Vouch-owned heap unchanged"] = true
	return out
}

func shortMethodName(m *types.Func) string {
	s := m.FullName()
	s = strings.ReplaceAll(s, "github.com/attestantio/", "")
	return s
}

func (fr *FuncRun) specialInvoke(f *Frame, st *State, c *ssa.CallCommon, recv Val, args []Val, pos token.Pos) (Val, bool) {
	full := c.Method.FullName()
	switch full {
	case "(context.Context).Done":
		w := fr.w
		w.declFun("ctx_done", "(declare-fun ctx_done (Iface) Int)")
		r := fr.def(sInt, "(ctx_done "+recv.T+")")
		fr.assume(st, "(> "+r+" 0)")
		return Val{T: r, S: sInt}, true
	case "(context.Context).Err":
		return fr.havocResults(st, c.Signature().Results(), "ctxerr"), true
	case "(error).Error":
		w := fr.w
		w.declFun("err_text", "(declare-fun err_text (Iface) Int)")
		return Val{T: "(err_text " + recv.T + ")", S: sInt}, true
	}
	return Val{}, false
}

// static calls -------------------------------------------------------------------

func (fr *FuncRun) callStatic(f *Frame, st *State, c *ssa.CallCommon, callee *ssa.Function, args []Val, pos token.Pos) Val {
	sig := callee.Signature
	full := callee.String()
	if o := callee.Origin(); o != nil {
		full = o.String()
	}
	pkg := pkgPathOf(callee)
	var tpkg *types.Package
	if callee.Pkg != nil {
		tpkg = callee.Pkg.Pkg
	}
	if isNoopCallee(full, tpkg) || isNoopRepoFunc(callee) {
		for _, a := range args {
			_ = a
		}
		return fr.noopResult(st, sig, callee.Name())
	}
	if v, ok := fr.specialStatic(f, st, c, callee, full, args, pos); ok {
		return v
	}
	if fc := fr.eng.contracts.findExtern(pkgPathOf(f.fn), full); fc != nil {
		return fr.applyContract(f, st, fc, callee, nil, args, pos, callee.Name())
	}
	if strings.HasPrefix(pkg, repoPrefix) {
		if fc := fr.eng.contracts.lookupFunc(callee); fc != nil && !fr.eng.inlineAll {
			return fr.applyContract(f, st, fc, callee, nil, args, pos, callee.Name())
		}
		if len(callee.Blocks) > 0 {
			return fr.inlineCall(f, st, callee, nil, args, pos)
		}
	}
	if v, ok := fr.stubCall(f, st, c, callee, full, args, pos); ok {
		return v
	}
	// unknown external function: results unconstrained, Vouch heap unchanged; pointer
	// arguments that are addresses of local cells are havoced.
	fr.havocPointerArgs(f, st, c, args)
	fr.assumed["external "+trimPath(full)+": results unconstrained, Vouch-owned heap unchanged"] = true
	return fr.havocResults(st, sig.Results(), callee.Name())
}

func trimPath(s string) string {
	return strings.ReplaceAll(s, "github.com/attestantio/", "")
}

func (fr *FuncRun) havocPointerArgs(f *Frame, st *State, c *ssa.CallCommon, args []Val) {
	for i, a := range args {
		if i >= len(c.Args) {
			continue
		}
		var argv ssa.Value = c.Args[i]
		if mi, isMI := argv.(*ssa.MakeInterface); isMI {
			// a pointer handed over inside an interface value (json.Unmarshal(data, &x))
			argv = mi.X
			if inner, ok := f.regs[argv]; ok {
				a = inner
			}
		}
		pt, ok := argv.Type().Underlying().(*types.Pointer)
		if !ok || a.Addr == nil {
			continue
		}
		if o, ok := a.Addr.(ObjAddr); ok {
			// a fresh local object handed to external code (e.g. json.Unmarshal(&x)): havoc it
			if o.Fresh {
				fr.havocObject(st, o, pt.Elem())
			}
		}
	}
}

func (fr *FuncRun) havocObject(st *State, o ObjAddr, t types.Type) {
	w := fr.w
	srt := w.SortOf(t)
	v := Val{T: fr.fresh(srt, "ext"), S: srt}
	fr.rangeAssume(st, v.T, t)
	fr.store(st, o, t, v)
}

func (fr *FuncRun) noopResult(st *State, sig *types.Signature, hint string) Val {
	res := sig.Results()
	if res.Len() == 0 {
		return Val{T: "0", S: sInt}
	}
	out := fr.havocResults(st, res, hint)
	// logging/tracing builders return non-nil objects
	mark := func(v Val, t types.Type) {
		switch t.Underlying().(type) {
		case *types.Pointer:
			fr.assume(st, not(eq(v.T, "0")))
		case *types.Interface:
			if t.String() != "error" {
				fr.assume(st, not(eq("(i-typ "+v.T+")", "0")))
			}
		}
	}
	if res.Len() == 1 {
		mark(out, res.At(0).Type())
	} else {
		for i := range out.Tup {
			mark(out.Tup[i], res.At(i).Type())
		}
	}
	return out
}

// isNoopCallee: logging, metrics and tracing calls are evaluated for their arguments only.
func isNoopCallee(full string, pkg *types.Package) bool {
	for _, p := range []string{
		"github.com/rs/zerolog", "go.opentelemetry.io/otel", "github.com/prometheus/",
	} {
		if strings.Contains(full, p) {
			return true
		}
	}
	return false
}

func isNoopRepoFunc(fn *ssa.Function) bool {
	if !strings.HasPrefix(pkgPathOf(fn), repoPrefix) {
		return false
	}
	n := fn.Name()
	if strings.HasPrefix(n, "monitor") || strings.HasPrefix(n, "Monitor") {
		return true
	}
	if fn.Syntax() != nil {
		pos := fn.Prog.Fset.Position(fn.Pos())
		if strings.HasSuffix(pos.Filename, "/metrics.go") {
			return true
		}
	}
	return false
}

// inlining -----------------------------------------------------------------------

func (fr *FuncRun) inlineCall(f *Frame, st *State, callee *ssa.Function, clo *Closure, args []Val, pos token.Pos) Val {
	for _, s := range fr.inlineStack {
		if s == callee {
			fr.errorf("outside subset: recursive call to %s", callee.Name())
			fr.havocAllHeaps(st)
			return fr.havocResults(st, callee.Signature.Results(), callee.Name())
		}
	}
	if f.depth >= maxInlineDepth {
		fr.errorf("inline depth exceeded at %s", callee.Name())
		fr.havocAllHeaps(st)
		return fr.havocResults(st, callee.Signature.Results(), callee.Name())
	}
	nf := fr.newFrame(callee, f)
	for i, p := range callee.Params {
		if i < len(args) {
			a := args[i]
			if a.Addr != nil {
				a = Val{T: fr.addrTerm(a.Addr), S: sInt, Addr: keepObj(a.Addr), Clo: a.Clo}
			}
			nf.regs[p] = a
		}
	}
	if clo != nil {
		for i, fv := range callee.FreeVars {
			if i < len(clo.Bind) {
				nf.bind[fv] = clo.Bind[i]
				nf.bindVal[fv] = clo.BVal[i]
			}
		}
	}
	fr.inlineStack = append(fr.inlineStack, callee)
	saveReach := st.reach
	rs, results := fr.execFunction(nf, st)
	fr.inlineStack = fr.inlineStack[:len(fr.inlineStack)-1]
	// continue in the merged return state; a callee that never returns kills the path
	*st = *rs
	_ = saveReach
	switch len(results) {
	case 0:
		return Val{T: "0", S: sInt}
	case 1:
		return results[0]
	}
	return Val{Tup: results}
}

func (fr *FuncRun) havocAllHeaps(st *State) {
	for h, srt := range fr.w.heapSorts {
		if h == "Held" {
			continue
		}
		_ = srt
		st.heaps[h] = fr.freshHeap(h)
		fr.noteHeapWrite(h)
	}
}

// go statements --------------------------------------------------------------------

func (fr *FuncRun) execGo(f *Frame, st *State, x *ssa.Go) {
	c := &x.Call
	var args []Val
	for _, a := range c.Args {
		args = append(args, fr.val(f, st, a))
	}
	fnVal := fr.val(f, st, c.Value)
	name := calleeName(c)
	fr.bumpCallCount(st, "go")
	if fr.eng.contracts.startedNames[name] {
		// started(X): the number of goroutines started with function X
		fr.bumpCounter(st, "started:"+name)
	}
	fr.callOrdGlobal["go"] = goOrdinal(f.fn, x)
	fr.atCallAsserts(f, st, c, "go", fr.callOrdGlobal["go"], fnVal, args, x.Pos())
	fr.ghostUpdates(f, st, c, "go", fnVal, args)
	var target *ssa.Function
	var clo *Closure
	if fnVal.Clo != nil {
		target, clo = fnVal.Clo.Fn, fnVal.Clo
	} else if sc := c.StaticCallee(); sc != nil {
		target = sc
	}
	if target == nil || len(target.Blocks) == 0 || !strings.HasPrefix(pkgPathOf(target), repoPrefix) {
		fr.assumed["go "+name+": thread body not analysed"] = true
		return
	}
	// thread precondition
	if fc := fr.eng.contracts.lookupFunc(target); fc != nil {
		fr.checkThreadPre(f, st, fc, target, clo, args, x.Pos())
	}
	// scout the thread body for its write set: those locations become shared
	ws := newWriteSet()
	fr.wsStack = append(fr.wsStack, ws)
	fr.scout++
	sc := st.clone()
	savedLocks := fr.mutexes
	mk := fr.mark()
	savedTop := fr.allocTop
	fr.inlineCall(f, sc, target, clo, args, x.Pos())
	fr.rollback(mk)
	fr.allocTop = savedTop
	fr.mutexes = savedLocks
	fr.scout--
	fr.wsStack = fr.wsStack[:len(fr.wsStack)-1]
	// the thread's writes to objects that existed before (and those of the threads it starts itself) are shared from
	// here on, on this path
	add := newWriteSet()
	for h := range ws.heaps {
		if h == "Held" {
			continue
		}
		if ws.oldHeaps[h] {
			add.heaps[h] = true
		}
		saved := fr.curWriteFresh
		fr.curWriteFresh = !ws.oldHeaps[h]
		fr.noteHeapWrite(h)
		fr.curWriteFresh = saved
	}
	for cell := range ws.cells {
		if cell.frame <= f.id && cell.frame != 0 {
			add.cells[cell] = true
			fr.noteCellWrite(cell)
		}
	}
	st.spawned = unionWS(unionWS(st.spawned, add), sc.spawned)
	fr.syncPoint(f, st)
}

// builtins -----------------------------------------------------------------------

func (fr *FuncRun) callBuiltin(f *Frame, st *State, c *ssa.CallCommon, b *ssa.Builtin, args []Val, pos token.Pos) Val {
	w := fr.w
	switch b.Name() {
	case "len":
		a := args[0]
		switch t := c.Args[0].Type().Underlying().(type) {
		case *types.Slice:
			return Val{T: fr.def(sInt, "(s-len "+a.T+")"), S: sInt}
		case *types.Map:
			fr.provCheck(st, a, false, exprText(c.Args[0]), pos)
			ml := fr.heapCur(st, w.MapLenHeap())
			r := fr.def(sInt, ite(eq(a.T, "0"), "0", sel(ml, a.T)))
			fr.assume(st, "(>= "+r+" 0)")
			// len == 0 iff domain empty is not axiomatised (cardinality); only non-negativity
			return Val{T: r, S: sInt}
		case *types.Basic:
			return Val{T: fr.def(sInt, "(strlen "+a.T+")"), S: sInt}
		case *types.Array:
			return Val{T: fmt.Sprintf("%d", t.Len()), S: sInt}
		case *types.Pointer:
			if at, ok := t.Elem().Underlying().(*types.Array); ok {
				return Val{T: fmt.Sprintf("%d", at.Len()), S: sInt}
			}
		case *types.Chan:
			r := fr.fresh(sInt, "chanlen")
			fr.assume(st, "(>= "+r+" 0)")
			return Val{T: r, S: sInt}
		}
	case "cap":
		a := args[0]
		if _, ok := c.Args[0].Type().Underlying().(*types.Slice); ok {
			return Val{T: fr.def(sInt, "(s-cap "+a.T+")"), S: sInt}
		}
		r := fr.fresh(sInt, "cap")
		fr.assume(st, "(>= "+r+" 0)")
		return Val{T: r, S: sInt}
	case "append":
		return fr.builtinAppend(f, st, c, args, pos)
	case "copy":
		return fr.builtinCopy(f, st, c, args, pos)
	case "delete":
		mt := c.Args[0].Type().Underlying().(*types.Map)
		fr.provCheck(st, args[0], true, exprText(c.Args[0]), pos)
		fr.mapDelete(st, mt, args[0].T, fr.valTerm(args[1]))
		return Val{T: "0", S: sInt}
	case "close":
		ch := args[0]
		closed := fr.chanHeap("ChanClosed")
		cur := fr.heapCur(st, closed)
		fr.assertOb(st, "closed-send", "close("+exprText(c.Args[0])+")", eq(sel(cur, ch.T), "0"), pos, "close of closed channel")
		fr.heapSet(st, closed, sto(cur, ch.T, "1"))
		return Val{T: "0", S: sInt}
	case "panic":
		fr.assertOb(st, "explicit-panic", "panic", "false", pos, "explicit panic reachable")
		st.reach = "false"
		return Val{T: "0", S: sInt}
	case "print", "println":
		return Val{T: "0", S: sInt}
	case "min", "max":
		op := "<="
		if b.Name() == "max" {
			op = ">="
		}
		r := args[0].T
		for _, a := range args[1:] {
			r = fr.def(args[0].S, fmt.Sprintf("(ite (%s %s %s) %s %s)", op, r, a.T, r, a.T))
		}
		return Val{T: r, S: args[0].S}
	case "clear":
		if mt, ok := c.Args[0].Type().Underlying().(*types.Map); ok {
			domH, lenH := w.MapDomHeap(mt), w.MapLenHeap()
			fr.heapSet(st, domH, sto(fr.heapCur(st, domH), args[0].T, fmt.Sprintf("((as const (Array %s Bool)) false)", w.SortOf(mt.Key()))))
			fr.heapSet(st, lenH, sto(fr.heapCur(st, lenH), args[0].T, "0"))
			return Val{T: "0", S: sInt}
		}
	case "ssa:wrapnilchk":
		return args[0]
	case "ssa:deferstack":
		return Val{T: "0", S: sInt}
	case "recover":
		return Val{T: "(mk-iface 0 0)", S: sIface}
	case "new":
	}
	fr.errorf("outside subset: builtin %s", b.Name())
	sig, _ := c.Value.Type().(*types.Signature)
	if sig != nil {
		return fr.havocResults(st, sig.Results(), b.Name())
	}
	return Val{T: "0", S: sInt}
}

func (fr *FuncRun) builtinAppend(f *Frame, st *State, c *ssa.CallCommon, args []Val, pos token.Pos) Val {
	w := fr.w
	stype, ok := c.Args[0].Type().Underlying().(*types.Slice)
	if !ok {
		fr.errorf("append on non-slice")
		return args[0]
	}
	eh := w.ElemHeap(stype.Elem())
	s := args[0]
	// the second argument is always a slice in SSA (variadic packed, or a string for []byte)
	t := args[1]
	var tlen string
	tIsString := false
	if tb, ok := c.Args[1].Type().Underlying().(*types.Basic); ok && tb.Info()&types.IsString != 0 {
		tIsString = true
		tlen = "(strlen " + t.T + ")"
	} else {
		tlen = "(s-len " + t.T + ")"
	}
	if !tIsString {
		if elems, ok := fr.variadicElems(f, st, c.Args[1], t); ok {
			// statically known number of appended elements: no quantifiers needed.
			n := len(elems)
			newLen := fr.def(sInt, fmt.Sprintf("(+ (s-len %s) %d)", s.T, n))
			fits := fr.def(sBool, "(<= "+newLen+" (s-cap "+s.T+"))")
			nref := fr.allocRef("append")
			ncap := fr.fresh(sInt, "newcap")
			fr.assume(st, "(>= "+ncap+" "+newLen+")")
			arr := fr.def(sInt, ite(fits, "(s-arr "+s.T+")", nref))
			cp := fr.def(sInt, ite(fits, "(s-cap "+s.T+")", ncap))
			cur := fr.heapCur(st, eh)
			contents := sel(cur, "(s-arr "+s.T+")")
			for i, e := range elems {
				contents = fmt.Sprintf("(store %s (+ (s-off %s) (s-len %s) %d) %s)", contents, s.T, s.T, i, e)
			}
			savedFresh := fr.curWriteFresh
			fr.curWriteFresh = s.FreshArr
			newInner := fr.constFor("(Array Int "+w.SortOf(stype.Elem())+")", contents, "appinner")
			fr.heapSet(st, eh, sto(cur, arr, newInner))
			fr.curWriteFresh = savedFresh
			// the same facts in the vocabulary of the element accessor, so that quantified clauses over
			// slice elements transfer from the old to the new backing array by E-matching
			{
				oldInner := fr.constFor("(Array Int "+w.SortOf(stype.Elem())+")", sel(cur, "(s-arr "+s.T+")"), "oldinner")
				off := fr.constFor(sInt, "(s-off "+s.T+")", "off")
				i := fr.freshName("i")
				fr.assume(st, fmt.Sprintf("(forall ((%s Int)) (! (=> (and (<= 0 %s) (< %s (s-len %s))) (= %s %s)) :pattern (%s)))", i, i, i, s.T,
					w.At(stype.Elem(), newInner, off, i), w.At(stype.Elem(), oldInner, off, i), w.At(stype.Elem(), newInner, off, i)))
				for k, e := range elems {
					fr.assume(st, eq(w.At(stype.Elem(), newInner, off, fmt.Sprintf("(+ (s-len %s) %d)", s.T, k)), e))
				}
			}
			fr.assumed["abstraction: a reallocating append copies the whole old backing array (cells beyond len are not zeroed)"] = true
			r := fr.def(sSlice, fmt.Sprintf("(mk-slice %s (s-off %s) %s %s)", arr, s.T, newLen, cp))
			return Val{T: r, S: sSlice, FreshArr: s.FreshArr}
		}
	}
	newLen := fr.def(sInt, "(+ (s-len "+s.T+") "+tlen+")")
	// Either reuse the backing array (when capacity suffices) or allocate a new one.
	fits := fr.def(sBool, "(<= "+newLen+" (s-cap "+s.T+"))")
	nref := fr.allocRef("append")
	ncap := fr.fresh(sInt, "newcap")
	fr.assume(st, "(>= "+ncap+" "+newLen+")")
	arr := fr.def(sInt, ite(fits, "(s-arr "+s.T+")", nref))
	off := fr.def(sInt, ite(fits, "(s-off "+s.T+")", "0"))
	cp := fr.def(sInt, ite(fits, "(s-cap "+s.T+")", ncap))
	cur := fr.heapCur(st, eh)
	es := w.SortOf(stype.Elem())
	// new contents of the target backing array
	na := fr.fresh("(Array Int "+es+")", "apparr")
	i := fr.freshName("i")
	oldArr := sel(cur, "(s-arr "+s.T+")")
	// prefix preserved
	fr.assume(st, fmt.Sprintf("(forall ((%s Int)) (=> (and (<= 0 %s) (< %s (s-len %s))) (= (select %s (+ %s %s)) (select %s (+ (s-off %s) %s)))))", i, i, i, s.T, na, off, i, oldArr, s.T, i))
	if !tIsString {
		tArr := sel(cur, "(s-arr "+t.T+")")
		fr.assume(st, fmt.Sprintf("(forall ((%s Int)) (=> (and (<= 0 %s) (< %s %s)) (= (select %s (+ %s (s-len %s) %s)) (select %s (+ (s-off %s) %s)))))", i, i, i, tlen, na, off, s.T, i, tArr, t.T, i))
	}
	// when reusing, cells outside the appended window keep their value
	fr.assume(st, implies(fits, fmt.Sprintf("(forall ((%s Int)) (=> (or (< %s (+ %s (s-len %s))) (>= %s (+ %s %s))) (= (select %s %s) (select %s %s))))", i, i, off, s.T, i, off, newLen, na, i, oldArr, i)))
	savedFresh := fr.curWriteFresh
	fr.curWriteFresh = s.FreshArr
	fr.heapSet(st, eh, sto(cur, arr, na))
	fr.curWriteFresh = savedFresh
	r := fr.def(sSlice, fmt.Sprintf("(mk-slice %s %s %s %s)", arr, off, newLen, cp))
	return Val{T: r, S: sSlice, FreshArr: s.FreshArr}
}

func (fr *FuncRun) builtinCopy(f *Frame, st *State, c *ssa.CallCommon, args []Val, pos token.Pos) Val {
	w := fr.w
	stype := c.Args[0].Type().Underlying().(*types.Slice)
	eh := w.ElemHeap(stype.Elem())
	d, s := args[0], args[1]
	slen := "(s-len " + s.T + ")"
	isStr := false
	if tb, ok := c.Args[1].Type().Underlying().(*types.Basic); ok && tb.Info()&types.IsString != 0 {
		slen = "(strlen " + s.T + ")"
		isStr = true
	}
	if d.ArrBack != nil && !isStr {
		// copy(array[:], src): write through to the array itself
		cur := fr.heapCur(st, eh)
		srcInner := sel(cur, "(s-arr "+s.T+")")
		if s.ArrBack != nil && s.ArrLen == d.ArrLen {
			srcArr := fr.loadRaw(st, s.ArrBack)
			fr.storeRaw(st, d.ArrBack, srcArr)
			return Val{T: fmt.Sprintf("%d", d.ArrLen), S: sInt}
		}
		if d.ArrLen <= 128 {
			dst := fr.loadRaw(st, d.ArrBack)
			t := dst.T
			for i := int64(0); i < d.ArrLen; i++ {
				e := w.At(stype.Elem(), srcInner, "(s-off "+s.T+")", fmt.Sprintf("%d", i))
				t = fmt.Sprintf("(store %s %d (ite (< %d (s-len %s)) %s (select %s %d)))", t, i, i, s.T, e, dst.T, i)
			}
			fr.storeRaw(st, d.ArrBack, Val{T: fr.defAlways(dst.S, t, "arrcopy"), S: dst.S})
			n := fr.def(sInt, fmt.Sprintf("(ite (<= %d (s-len %s)) %d (s-len %s))", d.ArrLen, s.T, d.ArrLen, s.T))
			return Val{T: n, S: sInt}
		}
	}
	n := fr.def(sInt, fmt.Sprintf("(ite (<= (s-len %s) %s) (s-len %s) %s)", d.T, slen, d.T, slen))
	cur := fr.heapCur(st, eh)
	es := w.SortOf(stype.Elem())
	na := fr.fresh("(Array Int "+es+")", "cparr")
	i := fr.freshName("i")
	oldArr := sel(cur, "(s-arr "+d.T+")")
	if !isStr {
		srcArr := sel(cur, "(s-arr "+s.T+")")
		fr.assume(st, fmt.Sprintf("(forall ((%s Int)) (=> (and (<= 0 %s) (< %s %s)) (= (select %s (+ (s-off %s) %s)) (select %s (+ (s-off %s) %s)))))", i, i, i, n, na, d.T, i, srcArr, s.T, i))
	}
	fr.assume(st, fmt.Sprintf("(forall ((%s Int)) (=> (or (< %s (s-off %s)) (>= %s (+ (s-off %s) %s))) (= (select %s %s) (select %s %s))))", i, i, d.T, i, d.T, n, na, i, oldArr, i))
	savedFresh := fr.curWriteFresh
	fr.curWriteFresh = d.FreshArr
	fr.heapSet(st, eh, sto(cur, "(s-arr "+d.T+")", na))
	fr.curWriteFresh = savedFresh
	return Val{T: n, S: sInt}
}

// goOrdinal: the position of a go statement among the go statements of its function (block order, from 1).
func goOrdinal(fn *ssa.Function, g *ssa.Go) int {
	n := 0
	for _, b := range fn.Blocks {
		for _, ins := range b.Instrs {
			if gi, ok := ins.(*ssa.Go); ok {
				n++
				if gi == g {
					return n
				}
			}
		}
	}
	return 0
}

func (fr *FuncRun) touchCounter(k string) {
	if fr.countersTouched == nil {
		fr.countersTouched = map[string]bool{}
	}
	fr.countersTouched[k] = true
}
