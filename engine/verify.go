package main

import (
	"fmt"
	"go/token"
	"go/types"
	"os"
	"sort"
	"strings"

	"golang.org/x/tools/go/packages"
	"golang.org/x/tools/go/ssa"
)

type Engine struct {
	globalWritten  map[*ssa.Global]bool
	globalScanned  map[*ssa.Package]bool
	writeMemo      map[*ssa.Function]map[string]heapTypeInfo
	writeMemoOther map[*ssa.Function]map[string]func(*World) string
	writeMemoFresh map[*ssa.Function]map[string]func(*World) string
	countMemo      map[*ssa.Function]map[string]bool
	prog           *ssa.Program
	pkgs           []*packages.Package
	pkgByPath      map[string]*packages.Package
	ssaPkgs        map[string]*ssa.Package
	contracts      *ContractDB
	inlineAll      bool
	checkGuards    bool
	fieldWritten   map[string]map[int]bool
	// seenLocals: the named locals (in order, with their types) of every function that was given a frame in this
	// session; localAliases: the same as recorded when the claims were last taken. A contract identifier that names
	// no local of the current function is looked up by position there (renamed locals, see (*EvalCtx).local).
	seenLocals   map[string][]localSig
	localAliases map[string][]localSig
}

type localSig struct {
	Name string `json:"name"`
	Type string `json:"type"`
}

// localsOf: the named local variables of fn in the order of their allocation instructions.
func localsOf(fn *ssa.Function) []localSig {
	var out []localSig
	for _, b := range fn.Blocks {
		for _, ins := range b.Instrs {
			if a, ok := ins.(*ssa.Alloc); ok && a.Comment != "" {
				out = append(out, localSig{a.Comment, a.Type().String()})
			}
		}
	}
	return out
}

func (e *Engine) pkgOf(fn *ssa.Function) *packages.Package {
	return e.pkgByPath[pkgPathOf(fn)]
}

// FindFunc locates a function by package path and short name ("(*Service).Attest", "Attest$1").
func (e *Engine) FindFunc(pkgPath, short string) *ssa.Function {
	sp := e.ssaPkgs[pkgPath]
	if sp == nil {
		return nil
	}
	var found *ssa.Function
	var visit func(fn *ssa.Function)
	visit = func(fn *ssa.Function) {
		if found != nil {
			return
		}
		if funcShortName(fn) == short {
			found = fn
			return
		}
		for _, a := range fn.AnonFuncs {
			visit(a)
		}
	}
	for _, m := range sp.Members {
		switch x := m.(type) {
		case *ssa.Function:
			visit(x)
		case *ssa.Type:
			for _, t := range []types.Type{x.Type(), types.NewPointer(x.Type())} {
				ms := e.prog.MethodSets.MethodSet(t)
				for i := 0; i < ms.Len(); i++ {
					if fn := e.prog.MethodValue(ms.At(i)); fn != nil && fn.Pkg == sp {
						visit(fn)
					}
				}
			}
		}
	}
	return found
}

// initOnlyField: an unexported field of a named struct type that no function of its defining package stores to,
// except through the address of an object the same function has just allocated, and whose address never escapes.
func (e *Engine) initOnlyField(t types.Type, idx int) bool {
	named := namedOf(t)
	if named == nil || named.Obj().Pkg() == nil {
		return false
	}
	stt, ok := named.Underlying().(*types.Struct)
	if !ok || idx >= stt.NumFields() || stt.Field(idx).Exported() {
		return false
	}
	key := named.Obj().Pkg().Path() + "." + named.Obj().Name()
	if e.fieldWritten == nil {
		e.fieldWritten = map[string]map[int]bool{}
	}
	if w, done := e.fieldWritten[key]; done {
		return !w[idx]
	}
	written := map[int]bool{}
	e.fieldWritten[key] = written
	spkg := e.prog.Package(named.Obj().Pkg())
	if spkg == nil {
		for i := 0; i < stt.NumFields(); i++ {
			written[i] = true
		}
		return false
	}
	seen := map[*ssa.Function]bool{}
	var visit func(fn *ssa.Function)
	visit = func(fn *ssa.Function) {
		if fn == nil || seen[fn] {
			return
		}
		seen[fn] = true
		for _, b := range fn.Blocks {
			for _, ins := range b.Instrs {
				if stIns, isStore := ins.(*ssa.Store); isStore {
					// a whole-struct assignment through a pointer that is not a fresh allocation writes every field
					if pt, ok := stIns.Addr.Type().Underlying().(*types.Pointer); ok {
						if n := namedOf(pt.Elem()); n != nil && n.Obj() == named.Obj() {
							if _, isAlloc := stIns.Addr.(*ssa.Alloc); !isAlloc {
								for i := 0; i < stt.NumFields(); i++ {
									written[i] = true
								}
							}
						}
					}
				}
				fa, ok := ins.(*ssa.FieldAddr)
				if !ok {
					continue
				}
				pt, ok := fa.X.Type().Underlying().(*types.Pointer)
				if !ok || namedOf(pt.Elem()) == nil || namedOf(pt.Elem()).Obj() != named.Obj() {
					continue
				}
				_, baseIsAlloc := fa.X.(*ssa.Alloc)
				refs := fa.Referrers()
				if refs == nil {
					written[fa.Field] = true
					continue
				}
				for _, r := range *refs {
					switch u := r.(type) {
					case *ssa.UnOp:
						if u.Op == token.MUL {
							continue
						}
					case *ssa.DebugRef:
						continue
					case *ssa.Store:
						if u.Addr == fa && u.Val != ssa.Value(fa) && baseIsAlloc {
							continue
						}
					case *ssa.FieldAddr, *ssa.IndexAddr:
						// the address of a nested part: treated as a possible write of this field
					}
					written[fa.Field] = true
				}
			}
		}
		for _, a := range fn.AnonFuncs {
			visit(a)
		}
	}
	for _, m := range spkg.Members {
		switch x := m.(type) {
		case *ssa.Function:
			visit(x)
		case *ssa.Type:
			for _, tt := range []types.Type{x.Type(), types.NewPointer(x.Type())} {
				ms := e.prog.MethodSets.MethodSet(tt)
				for i := 0; i < ms.Len(); i++ {
					visit(e.prog.MethodValue(ms.At(i)))
				}
			}
		}
	}
	return !written[idx]
}

// neverWritten: no instruction of the global's package stores to it or lets its address escape.
func (e *Engine) neverWritten(g *ssa.Global) bool {
	if e.globalWritten == nil {
		e.globalWritten = map[*ssa.Global]bool{}
		e.globalScanned = map[*ssa.Package]bool{}
	}
	pkg := g.Pkg
	if pkg == nil {
		return false
	}
	if !e.globalScanned[pkg] {
		e.globalScanned[pkg] = true
		var visit func(fn *ssa.Function)
		seen := map[*ssa.Function]bool{}
		visit = func(fn *ssa.Function) {
			if fn == nil || seen[fn] {
				return
			}
			seen[fn] = true
			for _, b := range fn.Blocks {
				for _, ins := range b.Instrs {
					for _, op := range ins.Operands(nil) {
						gg, ok := (*op).(*ssa.Global)
						if !ok {
							continue
						}
						// the only harmless use is a direct load
						if u, isLoad := ins.(*ssa.UnOp); isLoad && u.Op == token.MUL {
							continue
						}
						if _, isDbg := ins.(*ssa.DebugRef); isDbg {
							continue
						}
						if call, isCall := ins.(*ssa.Call); isCall {
							if sc := call.Common().StaticCallee(); sc != nil {
								switch sc.String() {
								case "(*github.com/holiman/uint256.Int).Cmp", "(*github.com/holiman/uint256.Int).Eq", "(*github.com/holiman/uint256.Int).IsZero",
									"(*math/big.Int).Cmp", "(*math/big.Int).Sign":
									continue // read-only uses
								}
							}
						}
						if sl, isSlice := ins.(*ssa.Slice); isSlice && sl.X == *op {
							// slicing an array variable: reads only if the slice is only read; be conservative
							if refs := sl.Referrers(); refs != nil {
								readOnly := true
								for _, r := range *refs {
									if c, isCall := r.(*ssa.Call); isCall && c.Common().StaticCallee() != nil && c.Common().StaticCallee().String() == "bytes.Equal" {
										continue
									}
									readOnly = false
								}
								if readOnly {
									continue
								}
							}
						}
						e.globalWritten[gg] = true
					}
				}
			}
			for _, a := range fn.AnonFuncs {
				visit(a)
			}
		}
		for _, m := range pkg.Members {
			switch x := m.(type) {
			case *ssa.Function:
				visit(x)
			case *ssa.Type:
				for _, t := range []types.Type{x.Type(), types.NewPointer(x.Type())} {
					ms := e.prog.MethodSets.MethodSet(t)
					for i := 0; i < ms.Len(); i++ {
						visit(e.prog.MethodValue(ms.At(i)))
					}
				}
			}
		}
	}
	return !e.globalWritten[g]
}

// FuncsInFiles lists the functions (methods and closures included) declared in the given files.
func (e *Engine) FuncsInFiles(files []string) []*ssa.Function {
	var out []*ssa.Function
	seen := map[*ssa.Function]bool{}
	match := func(fn *ssa.Function) bool {
		if fn.Synthetic != "" || len(fn.Blocks) == 0 {
			return false
		}
		name := e.prog.Fset.Position(fn.Pos()).Filename
		for _, f := range files {
			if strings.HasSuffix(name, "/"+f) {
				return true
			}
		}
		return false
	}
	var visit func(fn *ssa.Function)
	visit = func(fn *ssa.Function) {
		if fn == nil || seen[fn] {
			return
		}
		seen[fn] = true
		if match(fn) {
			out = append(out, fn)
		}
		for _, a := range fn.AnonFuncs {
			visit(a)
		}
	}
	var paths []string
	for p := range e.ssaPkgs {
		if strings.HasPrefix(p, repoPrefix) {
			paths = append(paths, p)
		}
	}
	sort.Strings(paths)
	for _, p := range paths {
		sp := e.ssaPkgs[p]
		var names []string
		for n := range sp.Members {
			names = append(names, n)
		}
		sort.Strings(names)
		for _, n := range names {
			switch x := sp.Members[n].(type) {
			case *ssa.Function:
				visit(x)
			case *ssa.Type:
				for _, t := range []types.Type{x.Type(), types.NewPointer(x.Type())} {
					ms := e.prog.MethodSets.MethodSet(t)
					for i := 0; i < ms.Len(); i++ {
						if fn := e.prog.MethodValue(ms.At(i)); fn != nil && fn.Pkg == sp {
							visit(fn)
						}
					}
				}
			}
		}
	}
	sort.Slice(out, func(i, j int) bool { return funcDisplayName(out[i]) < funcDisplayName(out[j]) })
	return out
}

func (e *Engine) NewRun(fn *ssa.Function) *FuncRun {
	return &FuncRun{eng: e, w: NewWorld(), fn: fn, names: map[string]int{}, assumed: map[string]bool{}, allWrites: newWriteSet(), allocTop: "AllocBase", stats: map[string]int{},
		constGlobals: map[string]string{}, freshHeapWrites: map[string]bool{}, oldHeapWrites: map[string]bool{}, freshRefs: map[string]bool{}, ordCache: map[*ssa.Function]map[*ssa.CallCommon]int{}}
}

// inferredWrites runs the body of fn in scouting mode and returns the content heaps
// (slice elements, pointer cells) it may write, with their sorts. Used at call sites so that the
// frame of a contract need not list them.
func (e *Engine) inferredWrites(fn *ssa.Function) map[string]heapTypeInfo {
	if e.writeMemo == nil {
		e.writeMemo = map[*ssa.Function]map[string]heapTypeInfo{}
	}
	if m, ok := e.writeMemo[fn]; ok {
		return m
	}
	e.writeMemo[fn] = map[string]heapTypeInfo{} // recursion guard
	out := map[string]heapTypeInfo{}
	if len(fn.Blocks) > 0 {
		fr := e.NewRun(fn)
		fr.callsiteSeen = map[string]bool{}
		fr.callOrdGlobal = map[string]int{}
		fr.scout = 1
		f := fr.newFrame(fn, nil)
		fr.topFrame = f
		st := &State{reach: "true", cells: map[cellKey]Val{}, heaps: map[string]string{}}
		for _, p := range fn.Params {
			srt := fr.w.SortOf(p.Type())
			v := Val{T: fr.fresh(srt, "p_"+p.Name()), S: srt}
			f.regs[p] = v
			f.params = append(f.params, v)
		}
		for _, fv := range fn.FreeVars {
			if !isStaticFreeVar(fv) {
				f.regs[fv] = Val{T: fr.fresh(sInt, "fv_"+fv.Name()), S: sInt}
			}
		}
		f.entry = st.clone()
		func() {
			defer func() { recover() }()
			fr.execFunction(f, st)
		}()
		others := map[string]func(*World) string{}
		for h := range fr.oldHeapWrites {
			if isContentHeap(h) {
				out[h] = fr.w.heapTypes[h]
				continue
			}
			if mk, ok := fr.w.heapMake[h]; ok {
				others[h] = mk
			} else if srt := fr.w.heapSorts[h]; plainSort(srt) {
				// ghost heaps of plain sorts (Int, Bool and arrays of them)
				name, sortText := h, srt
				others[h] = func(o *World) string { return o.heap(name, sortText) }
			}
		}
		if e.writeMemoOther == nil {
			e.writeMemoOther = map[*ssa.Function]map[string]func(*World) string{}
			e.writeMemoFresh = map[*ssa.Function]map[string]func(*World) string{}
		}
		e.writeMemoOther[fn] = others
		// heaps written in objects the function allocates itself (its results may be such objects)
		freshW := map[string]func(*World) string{}
		for h := range fr.freshHeapWrites {
			if mk, ok := fr.w.heapMake[h]; ok {
				freshW[h] = mk
			} else if srt := fr.w.heapSorts[h]; plainSort(srt) {
				name, sortText := h, srt
				freshW[h] = func(o *World) string { return o.heap(name, sortText) }
			}
		}
		e.writeMemoFresh[fn] = freshW
		// the ghost counters (calls of X, sends) the body advances
		cnt := map[string]bool{}
		for k := range fr.countersTouched {
			cnt[k] = true
		}
		if e.countMemo == nil {
			e.countMemo = map[*ssa.Function]map[string]bool{}
		}
		e.countMemo[fn] = cnt
	}
	e.writeMemo[fn] = out
	return out
}

// plainSort: a sort built from Int, Bool, Real and Array only (the same text in every world).
func plainSort(srt string) bool {
	if srt == "" {
		return false
	}
	for _, tok := range strings.FieldsFunc(srt, func(r rune) bool { return r == '(' || r == ')' || r == ' ' }) {
		switch tok {
		case "Array", "Int", "Bool", "Real":
		default:
			return false
		}
	}
	return true
}

// chanGhostHeap: ghost state of channels, which no modifies clause names.
func chanGhostHeap(h string) bool {
	return h == "ChanSent" || h == "ChanRecvd" || h == "ChanClosed" || h == "ChanCap" || h == "Published"
}

func isContentHeap(h string) bool {
	return strings.HasPrefix(h, "Elem_") || strings.HasPrefix(h, "Cell_")
}

// binding helpers ------------------------------------------------------------------------

// paramBinds binds parameter names (receiver included) to values.
func (fr *FuncRun) paramBinds(fn *ssa.Function, args []Val) map[string]TVal {
	b := map[string]TVal{}
	for i, p := range fn.Params {
		if i >= len(args) {
			break
		}
		tv := TVal{Val: args[i], Type: p.Type()}
		if tv.Addr != nil {
			tv.Val = Val{T: fr.addrTerm(tv.Addr), S: sInt}
		}
		b[p.Name()] = tv
		b[fmt.Sprintf("arg%d", i)] = tv
	}
	return b
}

func (fr *FuncRun) resultBinds(sig *types.Signature, results []Val, b map[string]TVal) {
	res := sig.Results()
	for i := 0; i < res.Len() && i < len(results); i++ {
		tv := TVal{Val: results[i], Type: res.At(i).Type()}
		if tv.Addr != nil {
			tv.Val = Val{T: fr.addrTerm(tv.Addr), S: sInt}
		}
		b[fmt.Sprintf("result%d", i)] = tv
		if n := res.At(i).Name(); n != "" && n != "_" {
			b[n] = tv
		}
		if res.Len() == 1 {
			b["result"] = tv
		}
		if i == res.Len()-1 && res.At(i).Type().String() == "error" {
			if _, ok := b["err"]; !ok {
				b["err"] = tv
			}
		}
		if i == 0 && res.Len() == 2 {
			if _, ok := b["result"]; !ok {
				b["result"] = tv
			}
		}
	}
}

func (fr *FuncRun) evalClause(ctx *EvalCtx, cl *Clause) string {
	ctx.errs = nil
	t := ctx.boolTerm(cl.Expr)
	if len(ctx.errs) > 0 {
		for _, e := range ctx.errs {
			fr.errorf("contract %s:%d: %s", shortFile(cl.File), cl.Line, e)
		}
		return fr.fresh(sBool, "unbound_clause")
	}
	return t
}

func shortFile(f string) string {
	return strings.TrimPrefix(f, "/repo/")
}

// applyContract replaces a call by the callee's contract.
func (fr *FuncRun) applyContract(f *Frame, st *State, fc *FuncContract, callee *ssa.Function, method *types.Func, args []Val, pos token.Pos, name string) Val {
	var sig *types.Signature
	binds := map[string]TVal{}
	var pkg *packages.Package
	if callee != nil {
		sig = callee.Signature
		binds = fr.paramBinds(callee, args)
		pkg = fr.eng.pkgOf(callee)
		if fc.Extern {
			pkg = fr.eng.pkgByPath[fc.Pkg]
		}
	} else {
		sig = method.Type().(*types.Signature)
		pkg = fr.eng.pkgByPath[method.Pkg().Path()]
		if fc.Extern {
			pkg = fr.eng.pkgByPath[fc.Pkg]
		}
		binds["recv"] = TVal{Val: args[0], Type: sig.Recv().Type()}
		for i := 0; i < sig.Params().Len() && i+1 < len(args); i++ {
			tv := TVal{Val: args[i+1], Type: sig.Params().At(i).Type()}
			if tv.Addr != nil {
				tv.Val = Val{T: fr.addrTerm(tv.Addr), S: sInt}
			}
			if n := sig.Params().At(i).Name(); n != "" && n != "_" {
				binds[n] = tv
			}
			binds[fmt.Sprintf("arg%d", i)] = tv
		}
	}
	pre := st.clone()
	preLines, preReach := len(fr.lines), st.reach
	// objects the callee allocates lie between the allocation mark at the call and a new, later mark
	callBase := fr.allocTop
	fr.bumpAllocTop()
	// the callee's ghost variables: their final values are whatever the callee's run produced
	for _, g := range fc.Ghosts {
		binds[g.Name] = TVal{Val: Val{T: fr.fresh(g.Sort, "cghost_"+g.Name), S: g.Sort}}
	}
	ctx := &EvalCtx{fr: fr, st: st, old: pre, pkg: pkg, binds: binds, freshBase: callBase}
	for i, r := range fc.Requires {
		t := fr.evalClause(ctx, r)
		fr.assertOb(st, "pre", fmt.Sprintf("%s:%d", name, i+1), t, pos, "precondition of "+fc.Name+": "+r.Text)
	}
	if fr.eng.checkGuards && !fc.Extern && callee != nil && !mentionsHeld(fc) {
		hh := fr.w.HeldHeap()
		fr.assertOb(st, "pre", name+":nolocks", fmt.Sprintf("(= %s ((as const (Array Int Int)) 0))", fr.heapCur(st, hh)), pos, "lock discipline: "+fc.Name+" declares no lock precondition and is therefore called with no lock held")
	}
	// frame
	{
		wholeH := map[string]bool{}
		objs := map[string][]string{}
		var order []string
		for _, m := range fc.Modifies {
			for _, t := range fr.modifiesTargets(ctx, m) {
				if _, seen := objs[t.heap]; !seen && !wholeH[t.heap] {
					order = append(order, t.heap)
				}
				if t.addr == "" {
					wholeH[t.heap] = true
				} else {
					objs[t.heap] = append(objs[t.heap], t.addr)
				}
			}
		}
		for _, h := range order {
			if wholeH[h] {
				fr.heapHavoc(st, h)
				continue
			}
			// only the named objects may change
			cur := fr.heapCur(st, h)
			hs := fr.w.heapSorts[h]
			es := strings.TrimSuffix(strings.TrimPrefix(hs, "(Array Int "), ")")
			for _, a := range objs[h] {
				nv := fr.fresh(es, "mod")
				if info, ok := fr.w.heapElem[h]; ok && info.levels == 1 {
					fr.rangeAssume(st, nv, info.t)
					fr.existingRefTerm(nv, info.t)
				}
				cur = sto(cur, a, nv)
			}
			allFresh := true
			for _, a := range objs[h] {
				if !fr.termIsFresh(a) {
					allFresh = false
				}
			}
			savedFresh := fr.curWriteFresh
			fr.curWriteFresh = allFresh
			fr.heapSet(st, h, cur)
			fr.curWriteFresh = savedFresh
		}
	}
	if callee != nil && !fc.Extern {
		iw := fr.eng.inferredWrites(callee)
		var hs []string
		for h := range iw {
			hs = append(hs, h)
		}
		sort.Strings(hs)
		for _, h := range hs {
			info := iw[h]
			if info.t == nil {
				continue
			}
			if info.kind == "elem" {
				fr.w.ElemHeap(info.t)
			} else {
				fr.w.CellHeap(info.t)
			}
			fr.heapHavoc(st, h)
		}
		// what else the body (and what it calls) writes in objects that existed before the call: the channel ghost
		// state always (no modifies clause names it), everything else when the contract has no modifies clause at all
		// (a modifies clause is checked against the body and then is the frame)
		others := fr.eng.writeMemoOther[callee]
		var otherNames []string
		for h := range others {
			otherNames = append(otherNames, h)
		}
		sort.Strings(otherNames)
		for _, h := range otherNames {
			if h == "Held" || (fc.HasMod && !chanGhostHeap(h)) || os.Getenv("GOVC_TEST_NO_INFERRED_HAVOC") != "" {
				continue
			}
			others[h](fr.w)
			fr.heapHavoc(st, h)
			if os.Getenv("GOVC_DEBUG_CALLS") != "" && fr.scout == 0 {
				fmt.Fprintf(os.Stderr, "call %s: havoc %s (inferred write)\n", name, h)
			}
		}
	}
	// results
	rv := fr.havocResults(st, sig.Results(), name)
	var results []Val
	if len(rv.Tup) > 0 {
		results = rv.Tup
	} else if sig.Results().Len() == 1 {
		results = []Val{rv}
	}
	fr.resultBinds(sig, results, binds)
	ctx = &EvalCtx{fr: fr, st: st, old: pre, pkg: pkg, binds: binds, freshBase: callBase}
	// the callee's own ghost counters: calls(X) and sends() in its postcondition count what the callee did; the
	// caller's counters advance by the same (unknown, non-negative) amounts
	var counterNames []string
	if callee != nil && !fc.Extern {
		ctx.calleeCounts = map[string]string{}
		for k := range fr.eng.countMemo[callee] {
			counterNames = append(counterNames, k)
		}
		sort.Strings(counterNames)
		for _, k := range counterNames {
			d := fr.fresh(sInt, "ccount")
			fr.emit("(assert (>= " + d + " 0))")
			ctx.calleeCounts[k] = d
		}
	}
	for _, en := range fc.Ensures {
		fr.assume(st, fr.evalClause(ctx, en))
	}
	for _, k := range counterNames {
		fr.touchCounter(k)
		key := cellKey{0, k}
		old, ok := st.cells[key]
		if !ok {
			old = Val{T: "0", S: sInt}
		}
		st.cells[key] = Val{T: fr.def(sInt, "(+ "+old.T+" "+ctx.calleeCounts[k]+")"), S: sInt}
		fr.noteCellWrite(key)
	}
	if len(fc.Ensures) > 0 && fr.scout == 0 {
		// vacuity guard: the assumed postcondition must leave the continuation reachable
		base := "after:" + name
		fr.names["cover:"+base]++
		ob := &Obligation{Name: fmt.Sprintf("%s#cover:%s#%d", fr.fnName(), base, fr.names["cover:"+base]), Kind: "cover", Fn: fr.fnName(), Prefix: len(fr.lines), Reach: st.reach,
			Cond: "false", PrePrefix: preLines, PreReach: preReach, Desc: "the postcondition assumed for " + name + " does not contradict the state at the call (vacuity guard)"}
		if pos.IsValid() {
			ob.Pos = fr.eng.prog.Fset.Position(pos)
		}
		fr.obls = append(fr.obls, ob)
	}
	if fc.Extern {
		fr.assumed["assumed contract of external "+trimPath(fc.Name)+" (declared in "+shortFile(fc.File)+")"] = true
	} else if fc.Trusted {
		fr.assumed["trusted contract "+trimPath(fc.Pkg)+"."+fc.Name] = true
	}
	return rv
}

// constZero: the all-zero / all-false value of an SMT sort.
func constZero(sort string) string {
	switch sort {
	case "Int":
		return "0"
	case "Bool":
		return "false"
	case "Real":
		return "0.0"
	}
	if strings.HasPrefix(sort, "(Array ") {
		inner := sort[len("(Array ") : len(sort)-1]
		j := skipSexp(inner, 0)
		vs := strings.TrimSpace(inner[j:])
		return "((as const " + sort + ") " + constZero(vs) + ")"
	}
	return "0"
}

// termIsFresh: the address term is an object allocated in this run (or an inline field of one).
func (fr *FuncRun) termIsFresh(a string) bool {
	if fr.freshRefs[a] {
		return true
	}
	if strings.HasPrefix(a, "(faddr_") {
		i := strings.Index(a, " ")
		return fr.termIsFresh(strings.TrimSuffix(a[i+1:], ")"))
	}
	return false
}

type modTarget struct {
	heap string
	addr string // "" = the whole heap (contents(...) and heap: entries)
}

// modifiesHeaps maps a modifies entry to heap names.
func (fr *FuncRun) modifiesHeaps(ctx *EvalCtx, m string) []string {
	var hs []string
	for _, t := range fr.modifiesTargets(ctx, m) {
		hs = append(hs, t.heap)
	}
	return hs
}

// modifiesTargets maps a modifies entry to (heap, object address) pairs: `x.f` allows writing field f of the
// object x only; `contents(x)` and `heap:H` allow the whole heap.
func (fr *FuncRun) modifiesTargets(ctx *EvalCtx, m string) []modTarget {
	whole := func(hs []string) []modTarget {
		var out []modTarget
		for _, h := range hs {
			out = append(out, modTarget{heap: h})
		}
		return out
	}
	if strings.HasPrefix(m, "heap:") || strings.HasPrefix(m, "contents(") {
		return whole(fr.modifiesHeapsOld(ctx, m))
	}
	e, err := parseExpr(m)
	if err != nil || e.Op != "sel" {
		return whole(fr.modifiesHeapsOld(ctx, m))
	}
	ctx.errs = nil
	base := ctx.eval(e.Args[0])
	if base.Type == nil {
		return whole(fr.modifiesHeapsOld(ctx, m))
	}
	p, ok := base.Type.Underlying().(*types.Pointer)
	if !ok {
		return whole(fr.modifiesHeapsOld(ctx, m))
	}
	st, ok := p.Elem().Underlying().(*types.Struct)
	if !ok {
		return nil
	}
	idx, path := findField(st, e.Name)
	if idx < 0 || len(path) != 1 {
		return whole(fr.modifiesHeapsOld(ctx, m))
	}
	ft := st.Field(idx).Type()
	if isStruct(ft) {
		inner := fr.heapAddrTerm(FieldOf{Base: ObjAddr{Ref: base.T, Elem: p.Elem()}, Idx: idx, Struct: p.Elem()})
		var out []modTarget
		fst := ft.Underlying().(*types.Struct)
		for i := 0; i < fst.NumFields(); i++ {
			if !isStruct(fst.Field(i).Type()) {
				out = append(out, modTarget{heap: fr.w.FieldHeap(ft, i), addr: inner})
			}
		}
		return out
	}
	return []modTarget{{heap: fr.w.FieldHeap(p.Elem(), idx), addr: base.T}}
}

func (fr *FuncRun) modifiesHeapsOld(ctx *EvalCtx, m string) []string {
	w := fr.w
	if strings.HasPrefix(m, "heap:") {
		h := strings.TrimPrefix(m, "heap:")
		if _, known := w.heapSorts[h]; !known {
			// a heap that this run never touches: nothing to forget, nothing to frame
			return nil
		}
		return []string{h}
	}
	contents := false
	if strings.HasPrefix(m, "contents(") && strings.HasSuffix(m, ")") {
		contents = true
		m = m[len("contents(") : len(m)-1]
	}
	e, err := parseExpr(m)
	if err != nil {
		fr.errorf("bad modifies entry %q", m)
		return nil
	}
	if contents {
		ctx.errs = nil
		v := ctx.eval(e)
		if v.Type == nil {
			fr.errorf("modifies contents(%s): untyped", m)
			return nil
		}
		return fr.contentHeaps(v.Type)
	}
	if e.Op != "sel" {
		fr.errorf("modifies entry must be x.f or contents(x): %q", m)
		return nil
	}
	ctx.errs = nil
	base := ctx.eval(e.Args[0])
	if base.Type == nil {
		fr.errorf("modifies %q: untyped base", m)
		return nil
	}
	p, ok := base.Type.Underlying().(*types.Pointer)
	if !ok {
		fr.errorf("modifies %q: base not a pointer", m)
		return nil
	}
	st, ok := p.Elem().Underlying().(*types.Struct)
	if !ok {
		return nil
	}
	idx, path := findField(st, e.Name)
	if idx < 0 || len(path) != 1 {
		fr.errorf("modifies %q: no such field", m)
		return nil
	}
	ft := st.Field(idx).Type()
	if isStruct(ft) {
		var hs []string
		fst := ft.Underlying().(*types.Struct)
		for i := 0; i < fst.NumFields(); i++ {
			if !isStruct(fst.Field(i).Type()) {
				hs = append(hs, w.FieldHeap(ft, i))
			}
		}
		return hs
	}
	return []string{w.FieldHeap(p.Elem(), idx)}
}

func (fr *FuncRun) contentHeaps(t types.Type) []string {
	w := fr.w
	switch u := t.Underlying().(type) {
	case *types.Map:
		hs := []string{w.MapDomHeap(u), w.MapValHeap(u), w.MapLenHeap()}
		return hs
	case *types.Slice:
		return []string{w.ElemHeap(u.Elem())}
	case *types.Pointer:
		if _, ok := u.Elem().Underlying().(*types.Struct); ok {
			var hs []string
			var walk func(t types.Type)
			walk = func(t types.Type) {
				st := t.Underlying().(*types.Struct)
				for i := 0; i < st.NumFields(); i++ {
					if isStruct(st.Field(i).Type()) {
						walk(st.Field(i).Type())
					} else {
						hs = append(hs, w.FieldHeap(t, i))
					}
				}
			}
			walk(u.Elem())
			return hs
		}
		return []string{w.CellHeap(u.Elem())}
	}
	return nil
}

// loop invariants ----------------------------------------------------------------------

func (fr *FuncRun) invariantsOf(f *Frame, head *ssa.BasicBlock) []*Clause {
	if f.contract == nil {
		// an inlined callee: the function under verification may carry invariants for its loops
		if !f.top && fr.topFrame != nil && fr.topFrame.contract != nil && fr.topFrame.contract.LoopsIn != nil {
			if m := fr.topFrame.contract.LoopsIn[funcShortName(f.fn)]; m != nil {
				return m[fr.loopOrdinal(f, head)]
			}
		}
		return nil
	}
	return f.contract.Loops[fr.loopOrdinal(f, head)]
}

// currentParamBinds: inside the body (loop invariants, call-site clauses) a parameter name denotes the
// current value of the parameter variable, which the body may have reassigned; `argN` keep the entry values.
func (fr *FuncRun) currentParamBinds(f *Frame, st *State) map[string]TVal {
	binds := fr.paramBinds(f.fn, f.params)
	for _, p := range f.fn.Params {
		for _, ins := range f.fn.Blocks[0].Instrs {
			a, ok := ins.(*ssa.Alloc)
			if !ok || a.Comment != p.Name() {
				continue
			}
			if isStaticCell(a) {
				if v, ok := st.cells[cellKey{f.id, a}]; ok {
					binds[p.Name()] = TVal{Val: v, Type: p.Type()}
				}
			} else if r, ok := f.regs[a]; ok {
				binds[p.Name()] = TVal{Val: fr.load(st, ObjAddr{Ref: r.T, Elem: p.Type(), NonNil: true}, p.Type()), Type: p.Type()}
			}
			break
		}
	}
	return binds
}

func (fr *FuncRun) frameCtx(f *Frame, st *State) *EvalCtx {
	binds := fr.currentParamBinds(f, st)
	return &EvalCtx{fr: fr, f: f, st: st, old: f.entry, pkg: fr.eng.pkgOf(f.fn), binds: binds}
}

func (fr *FuncRun) checkInvariants(f *Frame, head *ssa.BasicBlock, st *State, kind string) {
	if fr.scout > 0 {
		return
	}
	invs := fr.invariantsOf(f, head)
	n := fr.loopOrdinal(f, head)
	for i, inv := range invs {
		ctx := fr.frameCtx(f, st)
		t := fr.evalClause(ctx, inv)
		label := fmt.Sprintf("loop%d:%d", n, i+1)
		if !f.top {
			label = funcShortName(f.fn) + "." + label
		}
		fr.assertOb(st, kind, label, t, head.Instrs[0].Pos(), inv.Text)
	}
}

func (fr *FuncRun) assumeInvariants(f *Frame, head *ssa.BasicBlock, st *State, pre *State) {
	invs := fr.invariantsOf(f, head)
	for _, inv := range invs {
		ctx := fr.frameCtx(f, st)
		fr.assume(st, fr.evalClause(ctx, inv))
	}
}

// call-site clauses -----------------------------------------------------------------------

func (fr *FuncRun) callBinds(f *Frame, c *ssa.CallCommon, fnVal Val, args []Val) map[string]TVal {
	binds := fr.paramBinds(f.fn, f.params)
	off := 0
	if c.IsInvoke() {
		binds["recv"] = TVal{Val: fnVal, Type: c.Value.Type()}
	}
	for i, a := range args {
		if i >= len(c.Args) {
			break
		}
		tv := TVal{Val: a, Type: c.Args[i].Type()}
		if tv.Addr != nil {
			tv.Val = Val{T: fr.addrTerm(tv.Addr), S: sInt}
		}
		binds[fmt.Sprintf("arg%d", i-off)] = tv
	}
	return binds
}

func (fr *FuncRun) atCallAsserts(f *Frame, st *State, c *ssa.CallCommon, name string, ord int, fnVal Val, args []Val, pos token.Pos) {
	top := fr.contractFrame(f)
	if top == nil || fr.scout > 0 {
		return
	}
	k := 0
	for _, ac := range top.contract.AtCalls {
		if ac.Assume || ac.Callee != name || ac.Ghost != nil {
			continue
		}
		k++
		if ac.Ord != 0 && ac.Ord != fr.globalCallOrd(name) {
			continue
		}
		if name == "go" && f != top {
			// clauses about go statements speak of the function's own go statements, not of those in callees
			continue
		}
		binds := fr.callBinds(f, c, fnVal, args)
		// names of the contract frame's own params stay bound through inlining
		for n, v := range fr.currentParamBinds(top, st) {
			if !strings.HasPrefix(n, "arg") {
				binds[n] = v
			}
		}
		ctx := &EvalCtx{fr: fr, f: top, st: st, old: top.entry, pkg: fr.eng.pkgOf(top.fn), binds: binds}
		t := fr.evalClause(ctx, ac.Clause)
		nob := len(fr.obls)
		fr.assertOb(st, "callsite", fmt.Sprintf("%s:%d", name, k), t, pos, "call-site assertion at "+name+": "+ac.Clause.Text)
		if ac.Ord == 0 && len(fr.obls) > nob {
			fr.obls[len(fr.obls)-1].Universal = true
		}
		fr.callsiteSeen[fmt.Sprintf("%s:%d", name, k)] = true
	}
}

// ghostUpdates executes the ghost assignments bound to this call.
func (fr *FuncRun) ghostUpdates(f *Frame, st *State, c *ssa.CallCommon, name string, fnVal Val, args []Val) {
	top := fr.contractFrame(f)
	if top == nil {
		return
	}
	for _, ac := range top.contract.AtCalls {
		if ac.Ghost == nil || ac.Callee != name {
			continue
		}
		if ac.Ord != 0 && ac.Ord != fr.globalCallOrd(name) {
			continue
		}
		if name == "go" && f != top {
			continue
		}
		binds := fr.callBinds(f, c, fnVal, args)
		for n, v := range fr.currentParamBinds(top, st) {
			if !strings.HasPrefix(n, "arg") {
				binds[n] = v
			}
		}
		ctx := &EvalCtx{fr: fr, f: top, st: st, old: top.entry, pkg: fr.eng.pkgOf(top.fn), binds: binds}
		key := cellKey{0, "ghost:" + ac.Ghost.Name}
		cur, ok := st.cells[key]
		if !ok {
			fr.errorf("contract %s:%d: unknown ghost %q", shortFile(ac.Clause.File), ac.Clause.Line, ac.Ghost.Name)
			continue
		}
		var idx []string
		for _, ie := range ac.Ghost.Index {
			idx = append(idx, ctx.eval(ie).T)
		}
		val := ctx.eval(ac.Ghost.Value)
		for _, e := range ctx.errs {
			fr.errorf("contract %s:%d: %s", shortFile(ac.Clause.File), ac.Clause.Line, e)
		}
		// nested store
		var build func(arr string, i int) string
		build = func(arr string, i int) string {
			if i == len(idx) {
				return val.T
			}
			return sto(arr, idx[i], build(sel(arr, idx[i]), i+1))
		}
		st.cells[key] = Val{T: fr.defAlways(cur.S, build(cur.T, 0), "ghost_"+ac.Ghost.Name), S: cur.S}
		fr.noteCellWrite(key)
	}
}

// recvGhost executes ghost updates and assertions bound to the receipt of a message on a channel
// (`at recv ch: ghost g[..] = e` / `at recv ch: assert e`, the message is bound to msg).
func (fr *FuncRun) recvGhost(f *Frame, st *State, chv ssa.Value, msg Val, pos token.Pos) {
	et := chv.Type().Underlying().(*types.Chan).Elem()
	fr.eventGhost(f, st, "recv:"+exprText(chv), map[string]TVal{"msg": {Val: msg, Type: et}}, pos)
}

// eventGhost runs the ghost updates / assertions bound to a named event (`at recv ch: ...`, `at mapstore m: ...`).
func (fr *FuncRun) eventGhost(f *Frame, st *State, name string, extra map[string]TVal, pos token.Pos) {
	top := fr.contractFrame(f)
	if top == nil {
		return
	}
	k := 0
	for _, ac := range top.contract.AtCalls {
		if ac.Callee != name || ac.Assume {
			continue
		}
		binds := fr.currentParamBinds(top, st)
		for n, v := range extra {
			binds[n] = v
		}
		ctx := &EvalCtx{fr: fr, f: top, st: st, old: top.entry, pkg: fr.eng.pkgOf(top.fn), binds: binds}
		if ac.Ghost == nil {
			k++
			if fr.scout == 0 {
				t := fr.evalClause(ctx, ac.Clause)
				fr.assertOb(st, "callsite", fmt.Sprintf("%s:%d", name, k), t, pos, "assertion at receive on "+name+": "+ac.Clause.Text)
				fr.callsiteSeen[fmt.Sprintf("%s:%d", name, k)] = true
			}
			continue
		}
		key := cellKey{0, "ghost:" + ac.Ghost.Name}
		cur, ok := st.cells[key]
		if !ok {
			fr.errorf("contract %s:%d: unknown ghost %q", shortFile(ac.Clause.File), ac.Clause.Line, ac.Ghost.Name)
			continue
		}
		var idx []string
		for _, ie := range ac.Ghost.Index {
			idx = append(idx, ctx.eval(ie).T)
		}
		val := ctx.eval(ac.Ghost.Value)
		for _, e := range ctx.errs {
			fr.errorf("contract %s:%d: %s", shortFile(ac.Clause.File), ac.Clause.Line, e)
		}
		var build func(arr string, i int) string
		build = func(arr string, i int) string {
			if i == len(idx) {
				return val.T
			}
			return sto(arr, idx[i], build(sel(arr, idx[i]), i+1))
		}
		st.cells[key] = Val{T: fr.defAlways(cur.S, build(cur.T, 0), "ghost_"+ac.Ghost.Name), S: cur.S}
		fr.noteCellWrite(key)
	}
}

func (fr *FuncRun) globalCallOrd(name string) int {
	return fr.callOrdGlobal[name]
}

// staticOrd: ordinal of a call among the calls to the same callee name in its function (block order).
func (fr *FuncRun) staticOrd(fn *ssa.Function, c *ssa.CallCommon) int {
	m, ok := fr.ordCache[fn]
	if !ok {
		m = map[*ssa.CallCommon]int{}
		cnt := map[string]int{}
		for _, b := range fn.Blocks {
			for _, ins := range b.Instrs {
				if ci, ok := ins.(ssa.CallInstruction); ok {
					cc := ci.Common()
					n := calleeName(cc)
					if _, isGo := ins.(*ssa.Go); isGo {
						n = "go"
					}
					cnt[n]++
					m[cc] = cnt[n]
				}
			}
		}
		fr.ordCache[fn] = m
	}
	return m[c]
}

func (fr *FuncRun) contractFrame(f *Frame) *Frame {
	for x := f; x != nil; x = x.parent {
		if x.contract != nil {
			return x
		}
	}
	return nil
}

func (fr *FuncRun) atCallAssumes(f *Frame, st *State, c *ssa.CallCommon, name string, ord int, fnVal Val, args []Val, out Val, pos token.Pos) {
	top := fr.contractFrame(f)
	if top == nil {
		return
	}
	for _, ac := range top.contract.AtCalls {
		if !ac.Assume || ac.Callee != name {
			continue
		}
		if ac.Ord != 0 && ac.Ord != fr.globalCallOrd(name) {
			continue
		}
		binds := fr.callBinds(f, c, fnVal, args)
		for n, v := range fr.currentParamBinds(top, st) {
			if !strings.HasPrefix(n, "arg") {
				binds[n] = v
			}
		}
		var results []Val
		if len(out.Tup) > 0 {
			results = out.Tup
		} else {
			results = []Val{out}
		}
		sig := c.Signature()
		res := sig.Results()
		for i := 0; i < res.Len() && i < len(results); i++ {
			tv := TVal{Val: results[i], Type: res.At(i).Type()}
			binds[fmt.Sprintf("result%d", i)] = tv
			if i < len(ac.Names) {
				binds[ac.Names[i]] = tv
			}
			if res.Len() == 1 {
				binds["result"] = tv
			}
		}
		ctx := &EvalCtx{fr: fr, f: top, st: st, old: top.entry, pkg: fr.eng.pkgOf(top.fn), binds: binds}
		preLines, preReach := len(fr.lines), st.reach
		fr.assume(st, fr.evalClause(ctx, ac.Clause))
		fr.assumed[fmt.Sprintf("assumed at call %s in %s: %s", name, fr.fnName(), ac.Clause.Text)] = true
		if fr.scout == 0 {
			// vacuity guard: what is assumed about the call's results must not contradict the state
			base := "assumed:" + name
			fr.names["cover:"+base]++
			fr.obls = append(fr.obls, &Obligation{Name: fmt.Sprintf("%s#cover:%s#%d", fr.fnName(), base, fr.names["cover:"+base]), Kind: "cover", Fn: fr.fnName(), Prefix: len(fr.lines), Reach: st.reach,
				Cond: "false", PrePrefix: preLines, PreReach: preReach, Desc: "the clause assumed for the results of " + name + " does not contradict the state (vacuity guard)"})
		}
	}
}

// channel invariants -------------------------------------------------------------------------

func (fr *FuncRun) chanInvFor(f *Frame, chv ssa.Value) (*ChanInv, *Frame) {
	top := fr.contractFrame(f)
	if top == nil {
		return nil, nil
	}
	text := exprText(chv)
	for _, ci := range top.contract.ChanInvs {
		if ci.Chan == text {
			return ci, top
		}
	}
	return nil, nil
}

func (fr *FuncRun) chanInvAssert(f *Frame, st *State, chv ssa.Value, ch, v Val, pos token.Pos) {
	ci, top := fr.chanInvFor(f, chv)
	if ci == nil || fr.scout > 0 {
		return
	}
	binds := fr.paramBinds(top.fn, top.params)
	et := chv.Type().Underlying().(*types.Chan).Elem()
	binds[ci.Var] = TVal{Val: v, Type: et}
	ctx := &EvalCtx{fr: fr, f: f, st: st, old: top.entry, pkg: fr.eng.pkgOf(top.fn), binds: binds}
	t := fr.evalClause(ctx, ci.Clause)
	fr.assertOb(st, "chaninv", ci.Chan, t, pos, "channel invariant at send on "+ci.Chan+": "+ci.Clause.Text)
}

func (fr *FuncRun) chanInvAssume(f *Frame, st *State, chv ssa.Value, ch, v Val) {
	ci, top := fr.chanInvFor(f, chv)
	if ci == nil {
		return
	}
	binds := fr.paramBinds(top.fn, top.params)
	et := chv.Type().Underlying().(*types.Chan).Elem()
	binds[ci.Var] = TVal{Val: v, Type: et}
	ctx := &EvalCtx{fr: fr, f: f, st: st, old: top.entry, pkg: fr.eng.pkgOf(top.fn), binds: binds}
	fr.assume(st, fr.evalClause(ctx, ci.Clause))
}

func (fr *FuncRun) checkThreadPre(f *Frame, st *State, fc *FuncContract, target *ssa.Function, clo *Closure, args []Val, pos token.Pos) {
	if fr.scout > 0 || len(fc.Requires) == 0 {
		return
	}
	binds := fr.paramBinds(target, args)
	nf := fr.newFrame(target, f)
	if clo != nil {
		for i, fv := range target.FreeVars {
			if i < len(clo.Bind) {
				nf.bind[fv] = clo.Bind[i]
				nf.bindVal[fv] = clo.BVal[i]
			}
		}
	}
	// a new goroutine starts without any lock, whatever its creator holds
	tst := st.clone()
	hh := fr.w.HeldHeap()
	tst.heaps[hh] = fr.defAlways(fr.w.heapSorts[hh], "((as const (Array Int Int)) 0)", hh)
	ctx := &EvalCtx{fr: fr, f: nf, st: tst, old: tst, pkg: fr.eng.pkgOf(target), binds: binds}
	for i, r := range fc.Requires {
		t := fr.evalClause(ctx, r)
		fr.assertOb(st, "pre", fmt.Sprintf("go %s:%d", funcShortName(target), i+1), t, pos, "precondition of spawned thread: "+r.Text)
	}
}

// type-level clauses (lock invariants) ------------------------------------------------------------

func (fr *FuncRun) evalTypeClause(f *Frame, st *State, tc *TypeContract, cl *Clause, base Addr, structT types.Type) string {
	pkg := fr.eng.pkgByPath[tc.Pkg]
	self := TVal{Val: Val{T: fr.heapAddrTerm(base), S: sInt}, Type: types.NewPointer(structT)}
	binds := map[string]TVal{"self": self, "s": self}
	ctx := &EvalCtx{fr: fr, f: nil, st: st, old: nil, pkg: pkg, binds: binds}
	return fr.evalClause(ctx, cl)
}

// ---------------------------------------------------------------------------------------------
// Top-level verification of one function

type FuncResult struct {
	Fn       string
	Obls     []*Obligation
	Errors   []string
	Assumed  []string
	Lines    []string
	Prelude  string
	Instrs   int
	Contract bool
}

func (e *Engine) VerifyFunction(fn *ssa.Function) *FuncResult {
	fr := e.NewRun(fn)
	fr.callsiteSeen = map[string]bool{}
	fr.callOrdGlobal = map[string]int{}
	fc := e.contracts.lookupFunc(fn)
	f := fr.newFrame(fn, nil)
	f.top = true
	f.contract = fc
	if fc == nil {
		f.contract = &FuncContract{Loops: map[int][]*Clause{}}
	}
	fr.topFrame = f
	fr.sharedAtomics = f.contract.SharedAtomics
	st := &State{reach: "true", cells: map[cellKey]Val{}, heaps: map[string]string{}}
	w := fr.w
	// parameters
	for _, p := range fn.Params {
		srt := w.SortOf(p.Type())
		v := Val{T: fr.fresh(srt, "p_"+p.Name()), S: srt}
		fr.rangeAssume(st, v.T, p.Type())
		fr.refBound(v, p.Type())
		f.regs[p] = v
		f.params = append(f.params, v)
	}
	for _, fv := range fn.FreeVars {
		if !isStaticFreeVar(fv) {
			v := Val{T: fr.fresh(sInt, "fv_"+fv.Name()), S: sInt}
			fr.emit(fmt.Sprintf("(assert (and (not (= %s 0)) (<= (fa_root %s) AllocBase)))", v.T, v.T))
			f.regs[fv] = v
		}
	}
	for _, g := range f.contract.Ghosts {
		gv := Val{T: fr.fresh(g.Sort, "ghost_"+g.Name), S: g.Sort}
		switch g.Init {
		case "":
		case "empty":
			fr.emit(fmt.Sprintf("(assert (= %s %s))", gv.T, constZero(g.Sort)))
		default:
			if ie, err := parseExpr(g.Init); err == nil {
				ictx := &EvalCtx{fr: fr, f: f, st: st, pkg: e.pkgOf(fn), binds: fr.paramBinds(fn, f.params)}
				iv := ictx.eval(ie)
				fr.emit(fmt.Sprintf("(assert (= %s %s))", gv.T, iv.T))
			} else {
				fr.errorf("bad ghost initialiser %q", g.Init)
			}
		}
		st.cells[cellKey{0, "ghost:" + g.Name}] = gv
	}
	f.entry = st.clone()
	// preconditions
	ctx := &EvalCtx{fr: fr, f: f, st: st, old: f.entry, pkg: e.pkgOf(fn), binds: fr.paramBinds(fn, f.params)}
	var reqs []string
	// conventions: context parameters are non-nil; a captured receiver of a closure is valid like a receiver
	for i, p := range fn.Params {
		if p.Type().String() == "context.Context" {
			fr.assume(st, not(eq("(i-typ "+f.params[i].T+")", "0")))
			fr.assumed["convention: context.Context parameters are non-nil"] = true
		}
	}
	for _, fv := range fn.FreeVars {
		pt, ok := fv.Type().(*types.Pointer)
		if !ok {
			continue
		}
		if fv.Name() == "ctx" && pt.Elem().String() == "context.Context" {
			v := fr.load(st, CellAddr{Key: cellKey{f.id, fv}}, pt.Elem())
			if isStaticFreeVar(fv) {
				fr.assume(st, not(eq("(i-typ "+v.T+")", "0")))
			}
			continue
		}
		ppt, ok := pt.Elem().Underlying().(*types.Pointer)
		if !ok || !isStaticFreeVar(fv) {
			continue
		}
		if named := namedOf(ppt.Elem()); named != nil {
			if tc := e.contracts.lookupType(named); tc != nil && len(tc.Valid) > 0 {
				v := fr.load(st, CellAddr{Key: cellKey{f.id, fv}}, pt.Elem())
				fr.assume(st, not(eq(v.T, "0")))
				for _, vc := range tc.Valid {
					self := TVal{Val: v, Type: pt.Elem()}
					vctx := &EvalCtx{fr: fr, st: st, old: nil, pkg: e.pkgByPath[tc.Pkg], binds: map[string]TVal{"self": self, "s": self}}
					fr.assume(st, fr.evalClause(vctx, vc))
				}
				fr.assumed["validity of captured "+fv.Name()+" ("+trimPath(tc.Pkg)+"."+tc.Name+", established by its constructor)"] = true
			}
		}
	}
	if recv := fn.Signature.Recv(); recv != nil && len(fn.Params) > 0 {
		if pt, ok := recv.Type().Underlying().(*types.Pointer); ok {
			if named := namedOf(pt.Elem()); named != nil {
				if tc := e.contracts.lookupType(named); tc != nil && len(tc.Valid) > 0 {
					fr.assume(st, not(eq(f.params[0].T, "0")))
					for _, vc := range tc.Valid {
						self := TVal{Val: f.params[0], Type: recv.Type()}
						vctx := &EvalCtx{fr: fr, st: st, old: nil, pkg: e.pkgByPath[tc.Pkg], binds: map[string]TVal{"self": self, "s": self}}
						fr.assume(st, fr.evalClause(vctx, vc))
					}
					fr.assumed["receiver validity of "+trimPath(tc.Pkg)+"."+tc.Name+" (established by its constructor)"] = true
				}
			}
		}
	}
	for _, r := range f.contract.Requires {
		t := fr.evalClause(ctx, r)
		reqs = append(reqs, t)
		fr.assume(st, t)
	}
	if pk := e.pkgOf(fn); pk != nil {
		for _, ax := range e.contracts.axioms[pk.PkgPath] {
			actx := &EvalCtx{fr: fr, f: f, st: st, old: f.entry, pkg: pk, binds: map[string]TVal{}, pol: 1}
			fr.assume(st, fr.evalClause(actx, ax))
			fr.assumed["axiom (defining equation of a spec function): "+ax.Text] = true
		}
	}
	if e.checkGuards && !mentionsHeld(f.contract) {
		// lock discipline default: a function whose contract says nothing about locks is entered with no lock held
		// by the calling goroutine (asserted at every call under contract, see applyContract)
		hh := fr.w.HeldHeap()
		fr.emit(fmt.Sprintf("(assert (= %s ((as const (Array Int Int)) 0)))", fr.heapCur(st, hh)))
		fr.assumed["lock discipline: entered with no lock held by the calling goroutine (no lock precondition declared; asserted at calls under contract)"] = true
	}
	f.entry = st.clone()
	if len(reqs) > 0 {
		// vacuity: the preconditions must be satisfiable
		ob := &Obligation{Name: fr.fnName() + "#cover:requires", Kind: "cover", Fn: fr.fnName(), Prefix: len(fr.lines), Reach: "true", Cond: "false", Desc: "preconditions are satisfiable (vacuity guard)"}
		fr.obls = append(fr.obls, ob)
	}
	// body
	rs, results := fr.execFunction(f, st)
	fr.flushBackEdges()
	// postconditions
	binds := fr.paramBinds(fn, f.params)
	fr.resultBinds(fn.Signature, results, binds)
	pctx := &EvalCtx{fr: fr, f: f, st: rs, old: f.entry, pkg: e.pkgOf(fn), binds: binds}
	for i, en := range f.contract.Ensures {
		t := fr.evalClause(pctx, en)
		fr.assertObNoAssume(rs, "post", fmt.Sprintf("%d", i+1), t, fn.Pos(), en.Text)
	}
	for i, ex := range f.contract.Exits {
		t := fr.evalClause(pctx, ex)
		fr.assertObNoAssume(rs, "thread-exit", fmt.Sprintf("%d", i+1), t, fn.Pos(), ex.Text)
	}
	// lock balance
	for _, m := range fr.mutexes {
		if hasBound(m.addr) {
			continue
		}
		h := w.HeldHeap()
		cond := eq(sel(fr.heapCur(rs, h), m.addr), sel(fr.heapCur(f.entry, h), m.addr))
		fr.assertObNoAssume(rs, "lock-balance", m.text, cond, fn.Pos(), "every return leaves "+m.text+" as it was on entry")
	}
	// frame (static): heaps written must be covered by modifies
	if fc != nil && fc.HasMod {
		allowed := map[string]bool{"Held": true, "ChanSent": true, "ChanRecvd": true, "ChanClosed": true, "ChanCap": true, "Published": true}
		objLevel := map[string][]string{}
		wholeLevel := map[string]bool{}
		for _, m := range fc.Modifies {
			for _, t := range fr.modifiesTargets(ctx, m) {
				allowed[t.heap] = true
				if t.addr == "" {
					wholeLevel[t.heap] = true
				} else {
					objLevel[t.heap] = append(objLevel[t.heap], t.addr)
				}
			}
		}
		var ohs []string
		for h := range objLevel {
			if !wholeLevel[h] && fr.oldHeapWrites[h] {
				ohs = append(ohs, h)
			}
		}
		sort.Strings(ohs)
		for _, h := range ohs {
			// fields of entry-state objects other than the named ones keep their values
			a := fr.freshName("a")
			conds := []string{"(oldaddr " + a + ")"}
			for _, x := range objLevel[h] {
				conds = append(conds, "(not (= "+a+" "+x+"))")
			}
			cond := fmt.Sprintf("(forall ((%s Int)) (=> %s (= (select %s %s) (select %s %s))))", a, and(conds...), fr.heapCur(rs, h), a, fr.heapCur(f.entry, h), a)
			fr.assertObNoAssume(rs, "frame-object", h, cond, fn.Pos(), "only the objects named in the modifies clause change in "+h)
		}
		var bad []string
		for h := range fr.allWrites.heaps {
			if !allowed[h] && !fr.freshOnlyHeap(h) && !isContentHeap(h) {
				bad = append(bad, h)
			}
		}
		sort.Strings(bad)
		// a heap that is not named but was written at addresses that are not statically fresh: the entry-state
		// objects must provably keep their values (the writes hit objects this function allocated)
		var still []string
		for _, h := range bad {
			if !strings.HasPrefix(w.heapSorts[h], "(Array Int ") {
				still = append(still, h)
				continue
			}
			a := fr.freshName("a")
			cond := fmt.Sprintf("(forall ((%s Int)) (=> (oldaddr %s) (= (select %s %s) (select %s %s))))", a, a, fr.heapCur(rs, h), a, fr.heapCur(f.entry, h), a)
			fr.assertObNoAssume(rs, "frame-heap", h, cond, fn.Pos(), "entry-state objects keep their values in "+h+" (not named in the modifies clause)")
		}
		bad = still
		ob := &Obligation{Name: fr.fnName() + "#frame", Kind: "frame", Fn: fr.fnName(), Static: true, Desc: "writes are within the modifies clause"}
		if len(bad) == 0 {
			ob.Status = "discharged"
		} else {
			ob.Status = "refuted"
			ob.Output = "heaps written outside modifies: " + strings.Join(bad, ", ")
		}
		ob.Solver = "govc-static"
		fr.obls = append(fr.obls, ob)
	}
	// call-site clauses that never bound
	if fc != nil {
		k := map[string]int{}
		for _, ac := range fc.AtCalls {
			if ac.Assume || ac.Ghost != nil {
				continue
			}
			k[ac.Callee]++
			key := fmt.Sprintf("%s:%d", ac.Callee, k[ac.Callee])
			if !fr.callsiteSeen[key] {
				ob := &Obligation{Name: fr.fnName() + "#callsite-unbound:" + key, Kind: "callsite-unbound", Fn: fr.fnName(), Static: true, Status: "refuted", Solver: "govc-static",
					Desc: "call-site assertion never bound to a call: " + ac.Clause.Text, Output: "no call to " + ac.Callee + " found in the function or its inlined callees"}
				fr.obls = append(fr.obls, ob)
			}
		}
	}
	res := &FuncResult{Fn: fr.fnName(), Obls: fr.obls, Errors: fr.errors, Lines: fr.lines, Contract: fc != nil}
	for a := range fr.assumed {
		if strings.HasPrefix(a, "rng:") || strings.HasPrefix(a, "fa:") || strings.HasPrefix(a, "box:") || strings.HasPrefix(a, "glob:") {
			continue
		}
		res.Assumed = append(res.Assumed, a)
	}
	sort.Strings(res.Assumed)
	res.Prelude = w.Prelude()
	for _, b := range fn.Blocks {
		res.Instrs += len(b.Instrs)
	}
	return res
}

// freshOnlyHeap: heaps that only concern objects allocated in this run need not be listed.
func (fr *FuncRun) freshOnlyHeap(h string) bool {
	return fr.freshHeapWrites[h] && !fr.oldHeapWrites[h]
}

func (fr *FuncRun) assertObNoAssume(st *State, kind, base, cond string, pos token.Pos, desc string) {
	fr.noAssume = true
	fr.assertOb(st, kind, base, cond, pos, desc)
	fr.noAssume = false
}

// refBound: references reachable at entry are below AllocBase.
func (fr *FuncRun) refBound(v Val, t types.Type) {
	switch t.Underlying().(type) {
	case *types.Pointer, *types.Map, *types.Chan:
		fr.emit(fmt.Sprintf("(assert (<= (fa_root %s) AllocBase))", v.T))
	case *types.Slice:
		fr.emit(fmt.Sprintf("(assert (<= (fa_root (s-arr %s)) AllocBase))", v.T))
	}
}

// mentionsHeld: the contract states its own lock preconditions.
func mentionsHeld(fc *FuncContract) bool {
	if fc == nil {
		return false
	}
	if fc.LockFree {
		return true
	}
	for _, r := range fc.Requires {
		if strings.Contains(r.Text, "held(") || strings.Contains(r.Text, "nolocks(") {
			return true
		}
	}
	return false
}
