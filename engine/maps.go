package main

import (
	"fmt"
	"go/token"
	"go/types"

	"golang.org/x/tools/go/ssa"
)

func (fr *FuncRun) execLookup(f *Frame, st *State, x *ssa.Lookup) {
	w := fr.w
	mv := fr.val(f, st, x.X)
	kv := fr.val(f, st, x.Index)
	mt, ok := x.X.Type().Underlying().(*types.Map)
	if !ok {
		// string index
		w.declFun("strbyte", "(declare-fun strbyte (Int Int) Int)")
		fr.assertOb(st, "index", exprText(x.X)+"["+exprText(x.Index)+"]", and("(<= 0 "+kv.T+")", "(< "+kv.T+" (strlen "+mv.T+"))"), x.Pos(), "string index out of range")
		r := fr.def(sInt, "(strbyte "+mv.T+" "+kv.T+")")
		fr.rangeAssume(st, r, types.Typ[types.Uint8])
		f.regs[x] = Val{T: r, S: sInt}
		return
	}
	fr.provCheck(st, mv, false, exprText(x.X), x.Pos())
	dom := fr.heapCur(st, w.MapDomHeap(mt))
	val := fr.heapCur(st, w.MapValHeap(mt))
	vs := w.SortOf(mt.Elem())
	kt := fr.valTerm(kv)
	in := fr.def(sBool, and(not(eq(mv.T, "0")), sel(sel(dom, mv.T), kt)))
	rv := Val{T: fr.def(vs, ite(in, sel(sel(val, mv.T), kt), w.Zero(mt.Elem()))), S: vs}
	fr.rangeAssume(st, rv.T, mt.Elem())
	if _, inner := mt.Elem().Underlying().(*types.Map); inner && mv.Prov != nil && fr.eng.checkGuards {
		// a map held as an entry of a lock-guarded map is guarded by the same lock: a reference to it that is kept
		// after the lock is released still reaches shared state
		rv.Prov = mv.Prov
		if mv.Prov.EntriesReplaced {
			rv.Prov = &Prov{MuAddr: mv.Prov.MuAddr, Field: mv.Prov.Field + "[]", MuText: mv.Prov.MuText, Replaced: true}
		}
	}
	if x.CommaOk {
		f.regs[x] = Val{Tup: []Val{rv, {T: in, S: sBool}}}
	} else {
		f.regs[x] = rv
	}
}

func (fr *FuncRun) execMapUpdate(f *Frame, st *State, x *ssa.MapUpdate) {
	mv := fr.val(f, st, x.Map)
	kv := fr.val(f, st, x.Key)
	vv := fr.val(f, st, x.Value)
	mt := x.Map.Type().Underlying().(*types.Map)
	fr.assertOb(st, "nilmap-store", exprText(x.Map)+"["+exprText(x.Key)+"]", not(eq(mv.T, "0")), x.Pos(), "assignment to entry in nil map")
	fr.provCheck(st, mv, true, exprText(x.Map), x.Pos())
	fr.publishedWrite(st, mv, exprText(x.Map), x.Pos())
	fr.eventGhost(f, st, "mapstore:"+exprText(x.Map), map[string]TVal{"key": {Val: kv, Type: mt.Key()}, "value": {Val: vv, Type: mt.Elem()}}, x.Pos())
	fr.mapStore(st, mt, mv.T, fr.valTerm(kv), fr.valTerm(vv))
}

func (fr *FuncRun) mapStore(st *State, mt *types.Map, m, k, v string) {
	w := fr.w
	domH, valH, lenH := w.MapDomHeap(mt), w.MapValHeap(mt), w.MapLenHeap()
	dom, val, ml := fr.heapCur(st, domH), fr.heapCur(st, valH), fr.heapCur(st, lenH)
	saved, savedRoot := fr.curWriteFresh, fr.curWriteRoot
	fr.curWriteFresh = fr.freshRefs[m]
	fr.curWriteRoot = m
	defer func() { fr.curWriteFresh, fr.curWriteRoot = saved, savedRoot }()
	was := fr.def(sBool, sel(sel(dom, m), k))
	fr.heapSet(st, domH, sto(dom, m, sto(sel(dom, m), k, "true")))
	fr.heapSet(st, valH, sto(val, m, sto(sel(val, m), k, v)))
	fr.heapSet(st, lenH, sto(ml, m, ite(was, sel(ml, m), "(+ "+sel(ml, m)+" 1)")))
}

func (fr *FuncRun) mapDelete(st *State, mt *types.Map, m, k string) {
	w := fr.w
	domH, lenH := w.MapDomHeap(mt), w.MapLenHeap()
	dom, ml := fr.heapCur(st, domH), fr.heapCur(st, lenH)
	was := fr.def(sBool, and(not(eq(m, "0")), sel(sel(dom, m), k)))
	fr.heapSet(st, domH, sto(dom, m, sto(sel(dom, m), k, "false")))
	fr.heapSet(st, lenH, sto(ml, m, ite(was, "(- "+sel(ml, m)+" 1)", sel(ml, m))))
}

// range over maps (and strings) ----------------------------------------------------

func (fr *FuncRun) execRange(f *Frame, st *State, x *ssa.Range) {
	w := fr.w
	mv := fr.val(f, st, x.X)
	info := &iterInfo{mapVal: mv}
	if mt, ok := x.X.Type().Underlying().(*types.Map); ok {
		info.mapType = mt
		fr.provCheck(st, mv, false, exprText(x.X), x.Pos())
		key := cellKey{f.id, x}
		info.visited = key
		ks := w.SortOf(mt.Key())
		st.cells[key] = Val{T: fmt.Sprintf("((as const (Array %s Bool)) false)", ks), S: "(Array " + ks + " Bool)"}
		fr.noteCellWrite(key)
		info.count = cellKey{f.id, rangeCount{x}}
		st.cells[info.count] = Val{T: "0", S: sInt}
		fr.noteCellWrite(info.count)
		info.domAt = fr.heapCur(st, w.MapDomHeap(mt))
	} else {
		info.isStr = true
		key := cellKey{f.id, x}
		info.visited = key
		st.cells[key] = Val{T: "0", S: sInt}
	}
	f.iters[x] = info
	f.regs[x] = Val{T: "0", S: sInt}
}

func (fr *FuncRun) execNext(f *Frame, st *State, x *ssa.Next) {
	w := fr.w
	info := f.iters[x.Iter]
	if info == nil {
		fr.errorf("next on unknown iterator")
		return
	}
	ok := fr.fresh(sBool, "nextok")
	if info.isStr {
		idx := st.cells[info.visited]
		k := fr.fresh(sInt, "stridx")
		r := fr.fresh(sInt, "rune")
		fr.assume(st, implies(ok, and("(>= "+k+" "+idx.T+")", "(< "+k+" (strlen "+info.mapVal.T+"))")))
		st.cells[info.visited] = Val{T: fr.def(sInt, "(+ "+k+" 1)"), S: sInt}
		fr.noteCellWrite(info.visited)
		f.regs[x] = Val{Tup: []Val{{T: ok, S: sBool}, {T: k, S: sInt}, {T: r, S: sInt}}}
		return
	}
	mt := info.mapType
	ks, vs := w.SortOf(mt.Key()), w.SortOf(mt.Elem())
	m := info.mapVal.T
	dom := fr.heapCur(st, w.MapDomHeap(mt))
	val := fr.heapCur(st, w.MapValHeap(mt))
	vis := st.cells[info.visited]
	k := fr.fresh(ks, "rk")
	fr.rangeAssume(st, k, mt.Key())
	v := fr.def(vs, sel(sel(val, m), k))
	fr.rangeAssume(st, v, mt.Elem())
	// ok  => k is an unvisited key of the current domain
	fr.assume(st, implies(ok, and(not(eq(m, "0")), sel(sel(dom, m), k), not(sel(vis.T, k)))))
	// !ok => every key of the current domain has been visited
	q := fr.freshName("q")
	fr.assume(st, implies(not(ok), or(eq(m, "0"), fmt.Sprintf("(forall ((%s %s)) (=> (select (select %s %s) %s) (select %s %s)))", q, ks, dom, m, q, vis.T, q))))
	nv := Val{T: fr.defAlways(vis.S, ite(ok, sto(vis.T, k, "true"), vis.T), "visited"), S: vis.S}
	st.cells[info.visited] = nv
	fr.noteCellWrite(info.visited)
	// number of keys delivered so far; if the map is not changed while ranging it ends at len(m)
	cnt := st.cells[info.count]
	fr.assume(st, "(>= "+cnt.T+" 0)")
	if dom == info.domAt {
		ml := sel(fr.heapCur(st, w.MapLenHeap()), m)
		fr.assume(st, ite(ok, "(< "+cnt.T+" "+ite(eq(m, "0"), "0", ml)+")", eq(cnt.T, ite(eq(m, "0"), "0", ml))))
	}
	st.cells[info.count] = Val{T: fr.def(sInt, ite(ok, "(+ "+cnt.T+" 1)", cnt.T)), S: sInt}
	fr.noteCellWrite(info.count)
	f.regs[x] = Val{Tup: []Val{{T: ok, S: sBool}, {T: k, S: ks}, {T: v, S: vs}}}
}

type rangeCount struct{ r *ssa.Range }

// channels -----------------------------------------------------------------------

func (fr *FuncRun) chanHeap(name string) string { return fr.w.heap(name, "(Array Int Int)") }

func (fr *FuncRun) execSend(f *Frame, st *State, x *ssa.Send) {
	ch := fr.val(f, st, x.Chan)
	v := fr.val(f, st, x.X)
	fr.sendOn(f, st, ch, v, x.Chan, x.Pos())
}

func (fr *FuncRun) sendOn(f *Frame, st *State, ch, v Val, chv ssa.Value, pos token.Pos) {
	closed := fr.chanHeap("ChanClosed")
	fr.assertOb(st, "closed-send", exprText(chv), eq(sel(fr.heapCur(st, closed), ch.T), "0"), pos, "send on closed channel")
	fr.chanInvAssert(f, st, chv, ch, v, pos)
	sent := fr.chanHeap("ChanSent")
	cur := fr.heapCur(st, sent)
	fr.heapSet(st, sent, sto(cur, ch.T, "(+ "+sel(cur, ch.T)+" 1)"))
	// thread-local send counter for send-once obligations
	fr.touchCounter("sends")
	key := cellKey{0, "sends"}
	old, ok := st.cells[key]
	if !ok {
		old = Val{T: "0", S: sInt}
	}
	st.cells[key] = Val{T: fr.def(sInt, "(+ "+old.T+" 1)"), S: sInt}
	fr.noteCellWrite(key)
}

func (fr *FuncRun) execRecv(f *Frame, st *State, x *ssa.UnOp) {
	w := fr.w
	ch := fr.val(f, st, x.X)
	et := x.X.Type().Underlying().(*types.Chan).Elem()
	srt := w.SortOf(et)
	v := Val{T: fr.fresh(srt, "recv"), S: srt}
	fr.rangeAssume(st, v.T, et)
	fr.syncPoint(f, st)
	fr.chanInvAssume(f, st, x.X, ch, v)
	fr.recvGhost(f, st, x.X, v, x.Pos())
	recvd := fr.chanHeap("ChanRecvd")
	cur := fr.heapCur(st, recvd)
	fr.heapSet(st, recvd, sto(cur, ch.T, "(+ "+sel(cur, ch.T)+" 1)"))
	if x.CommaOk {
		ok := fr.fresh(sBool, "recvok")
		f.regs[x] = Val{Tup: []Val{v, {T: ok, S: sBool}}}
	} else {
		f.regs[x] = v
	}
}

func (fr *FuncRun) execSelect(f *Frame, st *State, x *ssa.Select) {
	w := fr.w
	n := len(x.States)
	idx := fr.fresh(sInt, "selidx")
	lo := "0"
	if !x.Blocking {
		lo = "(- 1)"
	}
	fr.assume(st, and("(<= "+lo+" "+idx+")", fmt.Sprintf("(< %s %d)", idx, n)))
	fr.syncPoint(f, st)
	tup := []Val{{T: idx, S: sInt}, {T: fr.fresh(sBool, "selok"), S: sBool}}
	for i, s := range x.States {
		ch := fr.val(f, st, s.Chan)
		if s.Dir == types.RecvOnly {
			et := s.Chan.Type().Underlying().(*types.Chan).Elem()
			srt := w.SortOf(et)
			v := Val{T: fr.fresh(srt, "selrecv"), S: srt}
			fr.rangeAssume(st, v.T, et)
			// channel invariant holds for the received message when this case fires
			sub := st.clone()
			sub.reach = fr.defAlways(sBool, and(st.reach, fmt.Sprintf("(= %s %d)", idx, i)), "selrecv")
			fr.chanInvAssume(f, sub, s.Chan, ch, v)
			fr.recvGhost(f, sub, s.Chan, v, s.Pos)
			// ghost cells changed by this case take effect only if the case fires
			for k, nv := range sub.cells {
				if ov, ok := st.cells[k]; ok && ov.T != nv.T {
					st.cells[k] = Val{T: fr.defAlways(nv.S, ite(fmt.Sprintf("(= %s %d)", idx, i), nv.T, ov.T), "ghostsel"), S: nv.S}
					fr.noteCellWrite(k)
				}
			}
			tup = append(tup, v)
		} else {
			sub := st.clone()
			sub.reach = fr.defAlways(sBool, and(st.reach, fmt.Sprintf("(= %s %d)", idx, i)), "selsend")
			v := fr.val(f, st, s.Send)
			fr.chanInvAssert(f, sub, s.Chan, ch, v, s.Pos)
		}
	}
	// ghost: which case fired is recorded by the received counters only via contracts
	f.regs[x] = Val{Tup: tup}
}

// syncPoint: shared locations written by spawned threads may have changed (DRF assumption).
func (fr *FuncRun) syncPoint(f *Frame, st *State) {
	if st.spawned == nil {
		return
	}
	for h := range st.spawned.heaps {
		st.heaps[h] = fr.freshHeap(h)
	}
	for c := range st.spawned.cells {
		if old, ok := st.cells[c]; ok {
			nv := Val{T: fr.fresh(old.S, "shared"), S: old.S}
			st.cells[c] = nv
			if t := cellType(c); t != nil {
				fr.rangeAssume(st, nv.T, t)
			}
		}
	}
}
