package main

import (
	"fmt"
	"go/token"
	"go/types"
	"strings"

	"golang.org/x/tools/go/ssa"
)

// mutexAddr returns the Int address term of a mutex receiver.
func (fr *FuncRun) mutexAddr(v Val) string {
	if v.Addr != nil {
		switch a := v.Addr.(type) {
		case ObjAddr:
			return a.Ref
		case FieldOf:
			if inHeap(a) {
				return fr.heapAddrTerm(a)
			}
		}
		fr.errorf("unsupported mutex location %T", v.Addr)
		return fr.fresh(sInt, "mu")
	}
	return v.T
}

func (fr *FuncRun) noteMutex(addr, text string) {
	for _, m := range fr.mutexes {
		if m.addr == addr {
			return
		}
	}
	fr.mutexes = append(fr.mutexes, mutexRef{addr: addr, text: text})
}

func (fr *FuncRun) specialStatic(f *Frame, st *State, c *ssa.CallCommon, callee *ssa.Function, full string, args []Val, pos token.Pos) (Val, bool) {
	w := fr.w
	unit := Val{T: "0", S: sInt}
	recvText := ""
	if len(c.Args) > 0 {
		recvText = exprText(c.Args[0])
	}
	full = strings.ReplaceAll(full, "github.com/sasha-s/go-deadlock.", "sync.")
	// go.uber.org/atomic's Bool has the semantics of sync/atomic's
	full = strings.ReplaceAll(full, "go.uber.org/atomic.Bool", "sync/atomic.Bool")
	switch full {
	case "(*sync.Mutex).Lock", "(*sync.RWMutex).Lock":
		a := fr.mutexAddr(args[0])
		fr.noteMutex(a, recvText)
		h := w.HeldHeap()
		cur := fr.heapCur(st, h)
		fr.assertOb(st, "lock-reentry", recvText, eq(sel(cur, a), "0"), pos, "Lock on a mutex already held by this thread (self-deadlock)")
		fr.heapSet(st, h, sto(cur, a, "(- 1)"))
		fr.syncPoint(f, st)
		fr.lockAcquired(f, st, c.Args[0], args[0], a, true, pos)
		return unit, true
	case "(*sync.RWMutex).RLock":
		a := fr.mutexAddr(args[0])
		fr.noteMutex(a, recvText)
		h := w.HeldHeap()
		cur := fr.heapCur(st, h)
		fr.assertOb(st, "lock-reentry", recvText, eq(sel(cur, a), "0"), pos, "RLock on a mutex already held by this thread (deadlocks once a writer queues)")
		fr.heapSet(st, h, sto(cur, a, "1"))
		fr.syncPoint(f, st)
		fr.lockAcquired(f, st, c.Args[0], args[0], a, false, pos)
		return unit, true
	case "(*sync.Mutex).Unlock", "(*sync.RWMutex).Unlock":
		a := fr.mutexAddr(args[0])
		fr.noteMutex(a, recvText)
		h := w.HeldHeap()
		cur := fr.heapCur(st, h)
		fr.lockReleasing(f, st, c.Args[0], args[0], a, true, pos)
		fr.assertOb(st, "unlock-not-held", recvText, eq(sel(cur, a), "(- 1)"), pos, "Unlock of a mutex not write-held")
		fr.heapSet(st, h, sto(cur, a, "0"))
		return unit, true
	case "(*sync.RWMutex).RUnlock":
		a := fr.mutexAddr(args[0])
		fr.noteMutex(a, recvText)
		h := w.HeldHeap()
		cur := fr.heapCur(st, h)
		fr.lockReleasing(f, st, c.Args[0], args[0], a, false, pos)
		fr.assertOb(st, "unlock-not-held", recvText, eq(sel(cur, a), "1"), pos, "RUnlock of a mutex not read-held")
		fr.heapSet(st, h, sto(cur, a, "0"))
		return unit, true
	case "(*sync.Mutex).TryLock", "(*sync.RWMutex).TryLock", "(*sync.RWMutex).TryRLock":
		a := fr.mutexAddr(args[0])
		fr.noteMutex(a, recvText)
		ok := fr.fresh(sBool, "trylock")
		h := w.HeldHeap()
		cur := fr.heapCur(st, h)
		mode := "(- 1)"
		if strings.HasSuffix(full, "TryRLock") {
			mode = "1"
		}
		fr.heapSet(st, h, sto(cur, a, ite(ok, mode, sel(cur, a))))
		return Val{T: ok, S: sBool}, true
	case "(*sync.WaitGroup).Add", "(*sync.WaitGroup).Done":
		return unit, true
	case "(*sync.WaitGroup).Wait":
		fr.syncPoint(f, st)
		return unit, true
	case "sync.NewCond":
		r := fr.allocRef("cond")
		// the Cond's locker is the argument
		if pt, ok := callee.Signature.Results().At(0).Type().(*types.Pointer); ok {
			if stt, ok := pt.Elem().Underlying().(*types.Struct); ok {
				for i := 0; i < stt.NumFields(); i++ {
					if stt.Field(i).Name() == "L" && len(args) == 1 {
						fr.store(st, FieldOf{Base: ObjAddr{Ref: r, Elem: pt.Elem(), Fresh: true, NonNil: true}, Struct: pt.Elem(), Idx: i}, stt.Field(i).Type(), args[0])
					}
				}
			}
		}
		return Val{T: r, S: sInt}, true
	case "(*sync.Cond).Wait":
		fr.syncPoint(f, st)
		return unit, true
	case "(*sync.Cond).Signal", "(*sync.Cond).Broadcast":
		return unit, true
	case "(*sync/atomic.Bool).Load":
		return fr.atomicLoad(f, st, args[0], "AtomicBool", sBool, pos), true
	case "(*sync/atomic.Bool).Store":
		fr.atomicStore(f, st, args[0], args[1], "AtomicBool", sBool, c, pos)
		return unit, true
	case "(*sync/atomic.Bool).CompareAndSwap":
		cur := fr.atomicLoad(f, st, args[0], "AtomicBool", sBool, pos)
		ok := fr.def(sBool, eq(cur.T, args[1].T))
		fr.atomicStore(f, st, args[0], Val{T: ite(ok, args[2].T, cur.T), S: sBool}, "AtomicBool", sBool, c, pos)
		return Val{T: ok, S: sBool}, true
	case "(*sync/atomic.Bool).Swap":
		cur := fr.atomicLoad(f, st, args[0], "AtomicBool", sBool, pos)
		fr.atomicStore(f, st, args[0], args[1], "AtomicBool", sBool, c, pos)
		return cur, true
	case "sync/atomic.LoadUint64", "sync/atomic.LoadUint32", "sync/atomic.LoadInt64", "sync/atomic.LoadInt32":
		r := fr.fresh(sInt, "atomicload")
		fr.rangeAssume(st, r, callee.Signature.Results().At(0).Type())
		return Val{T: r, S: sInt}, true
	case "sync/atomic.AddUint64", "sync/atomic.AddUint32", "sync/atomic.AddInt64", "sync/atomic.AddInt32",
		"sync/atomic.StoreUint64", "sync/atomic.StoreUint32", "sync/atomic.StoreInt64", "sync/atomic.StoreInt32":
		if callee.Signature.Results().Len() == 0 {
			return unit, true
		}
		r := fr.fresh(sInt, "atomicadd")
		fr.rangeAssume(st, r, callee.Signature.Results().At(0).Type())
		return Val{T: r, S: sInt}, true
	case "(*golang.org/x/sync/semaphore.Weighted).Acquire":
		fr.syncPoint(f, st)
		return fr.havocResults(st, callee.Signature.Results(), "semacq"), true
	case "(*golang.org/x/sync/semaphore.Weighted).Release", "(*golang.org/x/sync/semaphore.Weighted).TryAcquire":
		return fr.havocResults(st, callee.Signature.Results(), "sem"), true
	}
	return Val{}, false
}

func (fr *FuncRun) atomicAddr(v Val) string { return fr.mutexAddr(v) }

func (fr *FuncRun) atomicLoad(f *Frame, st *State, recv Val, heap, srt string, pos token.Pos) Val {
	h := fr.w.heap(heap, "(Array Int "+srt+")")
	a := fr.atomicAddr(recv)
	// an atomic is shared: unless the function is sequential w.r.t. it, its value may have
	// been changed by another thread; `sharedAtomics` controls this.
	if fr.sharedAtomics {
		return Val{T: fr.fresh(srt, "atomic"), S: srt}
	}
	return Val{T: fr.def(srt, sel(fr.heapCur(st, h), a)), S: srt}
}

func (fr *FuncRun) atomicStore(f *Frame, st *State, recv, v Val, heap, srt string, c *ssa.CallCommon, pos token.Pos) {
	h := fr.w.heap(heap, "(Array Int "+srt+")")
	a := fr.atomicAddr(recv)
	fr.heapSet(st, h, sto(fr.heapCur(st, h), a, v.T))
}

// guarded_by ----------------------------------------------------------------------

// guardInfo finds the guarded_by declaration for a field address.
func (fr *FuncRun) guardInfo(a Addr) (mu FieldOf, field string, ok bool) {
	fo, isField := a.(FieldOf)
	if !isField || !inHeap(fo.Base) {
		return FieldOf{}, "", false
	}
	named := namedOf(fo.Struct)
	if named == nil {
		return FieldOf{}, "", false
	}
	tc := fr.eng.contracts.lookupType(named)
	if tc == nil {
		return FieldOf{}, "", false
	}
	fname := fieldName(fo.Struct, fo.Idx)
	muName, ok := tc.GuardedBy[fname]
	if !ok {
		return FieldOf{}, "", false
	}
	st := fo.Struct.Underlying().(*types.Struct)
	for i := 0; i < st.NumFields(); i++ {
		if st.Field(i).Name() == muName {
			return FieldOf{Base: fo.Base, Idx: i, Struct: fo.Struct}, fname, true
		}
	}
	return FieldOf{}, "", false
}

func namedOf(t types.Type) *types.Named {
	t = types.Unalias(t)
	if n, ok := t.(*types.Named); ok {
		return n
	}
	return nil
}

func (fr *FuncRun) guardActive(f *Frame) bool {
	if !fr.eng.checkGuards {
		return false
	}
	// constructors are exempt (object not yet shared)
	top := fr.fn
	n := top.Name()
	if n == "New" || strings.HasPrefix(n, "New") || n == "init" {
		return false
	}
	return true
}

func (fr *FuncRun) guardCheck(f *Frame, st *State, a Addr, write bool, v ssa.Value, pos token.Pos) {
	if !fr.guardActive(f) {
		return
	}
	mu, field, ok := fr.guardInfo(a)
	if !ok {
		if write {
			fr.unguardedWrite(st, a, pos)
		}
		return
	}
	// map-typed (and slice-typed) fields: loading the header needs at least a read lock
	ma := fr.heapAddrTerm(mu)
	held := sel(fr.heapCur(st, fr.w.HeldHeap()), ma)
	cond := not(eq(held, "0"))
	desc := "read of " + field + " without holding its lock"
	if write {
		cond = eq(held, "(- 1)")
		desc = "write of " + field + " without holding its lock exclusively"
	}
	fr.assertOb(st, "guarded", field, cond, pos, desc)
}

// publishCheck: storing a map into a lock-guarded field publishes it: from then on other goroutines reach the map
// through the field, and a write through a reference kept from before (an alias without the field's provenance)
// is a write to shared state that the guard discipline would not see. The ghost heap Published records it.
func (fr *FuncRun) publishCheck(f *Frame, st *State, a Addr, t types.Type, v Val) {
	if !fr.guardActive(f) {
		return
	}
	if _, isMap := t.Underlying().(*types.Map); !isMap {
		return
	}
	if _, _, ok := fr.guardInfo(a); !ok {
		return
	}
	ph := fr.chanHeap("Published")
	fr.heapSet(st, ph, sto(fr.heapCur(st, ph), v.T, "1"))
	fr.pubUsed = true
}

// publishedWrite: a write to a map through a reference that does not come from a guarded field, in a function that
// publishes maps: the map must not be one that was already published.
func (fr *FuncRun) publishedWrite(st *State, mv Val, text string, pos token.Pos) {
	if !fr.eng.checkGuards || !fr.pubUsed || mv.Prov != nil {
		return
	}
	ph := fr.chanHeap("Published")
	fr.assertOb(st, "guarded", "published:"+text, eq(sel(fr.heapCur(st, ph), mv.T), "0"), pos, "write to map "+text+" through a reference kept from before it was published in a lock-guarded field")
}

func (fr *FuncRun) guardProv(f *Frame, st *State, a Addr) *Prov {
	if !fr.guardActive(f) {
		return nil
	}
	mu, field, ok := fr.guardInfo(a)
	if !ok {
		if tc, fname, shared := fr.sharedField(a); shared {
			if _, conf := tc.Confined[fname]; !conf {
				// an object reachable from a field of a shared structure that no lock protects
				return &Prov{Field: fname, Unguarded: true}
			}
		}
		return nil
	}
	p := &Prov{MuAddr: fr.heapAddrTerm(mu), Field: field}
	if tc, fname, shared := fr.sharedField(a); shared && tc.Replaced[fname] {
		p.Replaced = true
	}
	if tc, fname, shared := fr.sharedField(a); shared && tc.EntriesReplaced[fname] {
		p.EntriesReplaced = true
	}
	return p
}

// sharedField: the address is a field of a heap object whose type has a type contract (a shared service structure).
func (fr *FuncRun) sharedField(a Addr) (*TypeContract, string, bool) {
	fo, isField := a.(FieldOf)
	if !isField || !inHeap(fo.Base) {
		return nil, "", false
	}
	if o, ok := fo.Base.(ObjAddr); ok && o.Fresh {
		// allocated by this function and not yet published
		return nil, "", false
	}
	named := namedOf(fo.Struct)
	if named == nil {
		return nil, "", false
	}
	tc := fr.eng.contracts.lookupType(named)
	if tc == nil || len(tc.GuardedBy) == 0 {
		return nil, "", false
	}
	return tc, fieldName(fo.Struct, fo.Idx), true
}

// unguardedWrite: completeness of the lock discipline. A field of a shared structure that is written outside its
// constructor must be declared guarded_by (or confined, with a reason that is reported as an assumption).
func (fr *FuncRun) unguardedWrite(st *State, a Addr, pos token.Pos) {
	tc, fname, shared := fr.sharedField(a)
	if !shared {
		return
	}
	if reason, ok := tc.Confined[fname]; ok {
		fr.assumed["confined field "+tc.Name+"."+fname+": "+reason] = true
		return
	}
	fo := a.(FieldOf)
	ft := fieldType(fo.Struct, fo.Idx)
	if n := namedOf(ft); n != nil && n.Obj().Pkg() != nil && (n.Obj().Pkg().Path() == "sync" || n.Obj().Pkg().Path() == "sync/atomic") {
		return
	}
	fr.assertObNoAssume(st, "unguarded-write", fname, "false", pos, "write to field "+fname+" of shared structure "+tc.Name+" that no guarded_by clause covers")
}

// provCheck: an operation on a map value that was loaded from a guarded field.
func (fr *FuncRun) provCheck(st *State, v Val, write bool, text string, pos token.Pos) {
	if v.Prov == nil || !fr.eng.checkGuards {
		return
	}
	if v.Prov.Unguarded || v.Prov.Replaced {
		if write {
			why := "that no lock protects"
			if v.Prov.Replaced {
				why = "that is declared immutable once published (replaced, never mutated)"
			}
			fr.assertObNoAssume(st, "unguarded-write", v.Prov.Field, "false", pos, "write to the map held by shared field "+v.Prov.Field+" "+why)
		}
		return
	}
	held := sel(fr.heapCur(st, fr.w.HeldHeap()), v.Prov.MuAddr)
	cond := not(eq(held, "0"))
	desc := "read access to map " + v.Prov.Field + " without holding its lock"
	if write {
		cond = eq(held, "(- 1)")
		desc = "write access to map " + v.Prov.Field + " without holding its lock exclusively"
	}
	fr.assertOb(st, "guarded", v.Prov.Field, cond, pos, desc)
}

// lock invariants (discipline I) --------------------------------------------------------

func (fr *FuncRun) lockAcquired(f *Frame, st *State, recv ssa.Value, rv Val, addr string, write bool, pos token.Pos) {
	fo, ok := rv.Addr.(FieldOf)
	if !ok {
		return
	}
	named := namedOf(fo.Struct)
	if named == nil {
		return
	}
	tc := fr.eng.contracts.lookupType(named)
	if tc == nil {
		return
	}
	mu := fieldName(fo.Struct, fo.Idx)
	invs := tc.LockInv[mu]
	if len(invs) == 0 {
		return
	}
	// havoc the guarded fields of this object (other threads may have changed them)
	base := ObjAddr{Ref: fr.heapAddrTerm(fo.Base), Elem: fo.Struct}
	stt := fo.Struct.Underlying().(*types.Struct)
	for fname, m := range tc.GuardedBy {
		if m != mu {
			continue
		}
		for i := 0; i < stt.NumFields(); i++ {
			if stt.Field(i).Name() != fname {
				continue
			}
			ft := stt.Field(i).Type()
			fa := FieldOf{Base: fo.Base, Idx: i, Struct: fo.Struct}
			nv := Val{T: fr.fresh(fr.w.SortOf(ft), "g_"+fname), S: fr.w.SortOf(ft)}
			fr.rangeAssume(st, nv.T, ft)
			fr.store(st, fa, ft, nv)
			if mt, ok := ft.Underlying().(*types.Map); ok {
				fr.heapHavoc(st, fr.w.MapDomHeap(mt))
				fr.heapHavoc(st, fr.w.MapValHeap(mt))
				fr.heapHavoc(st, fr.w.MapLenHeap())
				if imt, ok := mt.Elem().Underlying().(*types.Map); ok {
					fr.heapHavoc(st, fr.w.MapDomHeap(imt))
					fr.heapHavoc(st, fr.w.MapValHeap(imt))
				}
			}
		}
	}
	_ = base
	for _, g := range tc.Ghosts {
		if g.Mutex == mu {
			key := cellKey{0, "ghost:" + g.Name}
			nv := Val{T: fr.fresh(g.Sort, "ghost_"+g.Name), S: g.Sort}
			st.cells[key] = nv
			fr.noteCellWrite(key)
		}
	}
	for _, inv := range invs {
		t := fr.evalTypeClause(f, st, tc, inv, fo.Base, fo.Struct)
		fr.assume(st, t)
	}
}

func (fr *FuncRun) lockReleasing(f *Frame, st *State, recv ssa.Value, rv Val, addr string, write bool, pos token.Pos) {
	fo, ok := rv.Addr.(FieldOf)
	if !ok {
		return
	}
	named := namedOf(fo.Struct)
	if named == nil {
		return
	}
	tc := fr.eng.contracts.lookupType(named)
	if tc == nil {
		return
	}
	mu := fieldName(fo.Struct, fo.Idx)
	for i, inv := range tc.LockInv[mu] {
		t := fr.evalTypeClause(f, st, tc, inv, fo.Base, fo.Struct)
		fr.assertOb(st, "lockinv", fmt.Sprintf("%s:%d", mu, i+1), t, pos, "lock invariant must hold when "+mu+" is released: "+inv.Text)
	}
}

// channel invariants: implemented in contracts.go (chanInvAssert / chanInvAssume)
