"""Helpers for replay drivers: turn a solver model into an in-package Go test that is injected with
`go test -overlay` (nothing is written into the repository) and report whether the failure reproduces."""
import json, os, re, subprocess, sys, tempfile, shutil

ENV = dict(os.environ, GOFLAGS="-mod=mod", GOPROXY="off", GOSUMDB="off", GOTOOLCHAIN="local")

def read_model(path):
    try:
        return open(path).read()
    except OSError:
        return ""

def model_int(model, name_regex, default=None):
    """first integer value of a (define-fun <name> ...) whose name matches name_regex"""
    for m in re.finditer(r"\(define-fun\s+(\S+)\s+\(([^)]*(?:\([^)]*\))*[^)]*)\)\s+\S+\s+((?:.|\n)*?)\)\s*(?=\(define-fun|\)\s*$)", model):
        if re.search(name_regex, m.group(1)):
            body = m.group(3)
            neg = re.search(r"\(-\s*(\d+)\)", body)
            pos = re.search(r"(?<![\w!])(\d+)(?![\w!])", body)
            if neg and (not pos or neg.start() < pos.start()):
                return -int(neg.group(1))
            if pos:
                return int(pos.group(1))
    return default

def run_overlay_test(repo, pkg_rel, test_src, run="TestVerifReplay", tags="verif", timeout=120, race=False):
    """returns (failed: bool, output). The injected test FAILS when the violation reproduces."""
    tmp = tempfile.mkdtemp(prefix="verif-replay-", dir="/var/tmp")
    try:
        src = os.path.join(tmp, "zz_replay_test.go")
        open(src, "w").write(test_src)
        ov = os.path.join(tmp, "overlay.json")
        json.dump({"Replace": {os.path.join(repo, pkg_rel, "zz_verif_replay_test.go"): src}}, open(ov, "w"))
        # the module files are copied so that -mod=mod can never rewrite /repo/go.mod or go.sum
        for f in ("go.mod", "go.sum"):
            shutil.copy(os.path.join(repo, f), os.path.join(tmp, f))
        cmd = ["go", "test", "-modfile", os.path.join(tmp, "go.mod")] + (["-race"] if race else []) + ["-overlay", ov, "-tags", tags, "-vet=off", "-count=1", "-timeout", "60s", "-run", "^%s$" % run, "./" + pkg_rel]
        try:
            p = subprocess.run(cmd, cwd=repo, env=ENV, capture_output=True, text=True, timeout=timeout)
            out = p.stdout + p.stderr
            return p.returncode != 0 and ("REPRODUCED" in out or "panic:" in out or "WARNING: DATA RACE" in out), out
        except subprocess.TimeoutExpired as e:
            return False, "replay timed out: %s" % e
    finally:
        shutil.rmtree(tmp, ignore_errors=True)

def finish(reproduced, out):
    sys.stdout.write(out[-5000:])
    sys.stdout.write("\nreplay: %s\n" % ("REPRODUCED on the real code" if reproduced else "not reproduced"))
    sys.exit(0 if reproduced else 1)
